"""C14 - iteration enumerates every nested code object (DESIGN 5, R14.1-R14.3)."""
from __future__ import annotations

import ast
from typing import List, Tuple

from sa.analysis import VERSIONS, Analysis, fmt_atom, vname
from sa.model import AnalysisError, loc, norm_src

ROOT = "code_data::CodeData"


def routes(an: Analysis, t, target: str, prefix: Tuple[str, ...] = (), seen=()) -> List[Tuple[str, ...]]:
    """Field-name sequences along which a value of type t can hold an instance of `target` (stopping at the first)."""
    tg = an.tg
    if t[0] == "rec":
        if t[1] in seen:
            return []
        seen = seen + (t[1],)
    t = tg.unfold_rec(t)
    out: List[Tuple[str, ...]] = []
    k = t[0]
    if k == "class":
        if t[1] == target:
            return [prefix]
        if t[1] in seen:
            return []
        for f in tg.cls(t[1]).fields:
            out += routes(an, tg.field_type(f), target, prefix + (f.name,), seen + (t[1],))
    elif k in ("tuple", "frozenset", "list", "set"):
        out += routes(an, t[1], target, prefix, seen)
    elif k in ("tuplefix", "union"):
        for s in t[1]:
            out += routes(an, s, target, prefix, seen)
    elif k == "dict":
        out += routes(an, t[2], target, prefix, seen)
    return sorted(set(out))


def run(an: Analysis, rep):
    rep.explanation = (
        "Decides traversal exhaustiveness against the type graph: for every route (sequence of fields) along which a CodeData can "
        "hold another CodeData, CodeData.__iter__ yields the object at the end of that route, under a CodeData type guard; "
        "all_code_data yields self first and recurses through iteration; the decoder turns every nested code constant into "
        "CodeData.from_code of it (so each yielded object equals decoding the nested code object on its own). "
        "A route that nothing visits has a concrete witness: a code object left unreferenced in co_consts."
    )
    rep.rule("R14.1", "__iter__ visits every type-graph route from CodeData to a nested CodeData", 2)
    rep.rule("R14.2", "all_code_data yields self first, then recurses over iter(self)", 3)
    rep.rule("R14.3", "nested code constants are decoded by CodeData.from_code; reference walk recurses over co_consts", 2)
    from rules.common import purity
    rep.run(purity, an, rep, "R14.P", ["iter", "all_code_data", "from_code"])
    from rules.common import SharedRules, ordering_rule
    from rules import c08
    rep.run(c08.r084, an, SharedRules(rep, "R14.K", "equality of nested code objects (which the once-only set of __iter__ uses) tells apart what CPython tells apart (shared with C08's R08.4): otherwise a distinct code object is swallowed as 'already seen'"), rule="R14.K")
    from rules import c09
    sht = SharedRules(rep, "R14.T", "the decoder's table bookkeeping (shared with C09's R09.7 / R09.3 / C08's R08.2): a nested code object loaded by two instructions must decode to one and the same Constant "
                                     "(else __iter__ yields it twice), and one that no instruction loads must be listed among the unreferenced entries (else it is never yielded)")
    rep.run(c09.table_sequences_rule, an, sht)
    rep.run(c09.unreferenced_rules, an, sht)
    rep.run(c08.r082, an, sht)
    rep.run(ordering_rule, an, rep, "R14.5", ["iter", "all_code_data"])
    rep.run(c08.r083, an, SharedRules(rep, "R14.S", "everything the decoder stores in the data is hashable (shared with C08's R08.3): nested code objects are table entries, the decoder of the enclosing "
                                                    "code object hashes them - a list left in a field of a nested CodeData makes from_code of the parent raise"))
    from rules import c04 as _c04w, c02 as _c02r
    from rules.common import rejection_paths_rule
    rep.run(_c02r.r02f, an, SharedRules(rep, "R14.D", "the decoder's instruction function folded over witness code units (shared with C02's R02.F): every entry of the constants table that no instruction loads is "
                                                     "listed among the unreferenced entries - also next to an unreferenced name at the same index, also in a function with a docstring and parameters - else a nested code object there is never yielded"))
    rep.run(_c04w.r04f, an, SharedRules(rep, "R14.W", "the decoder's header logic folded over witness code objects of every kind of scope (shared with C04's R04.W): a nested scope the decoder refuses "
                                                      "(a class body that reads a local of the enclosing function) makes from_code of everything around it raise"))
    rep.run(rejection_paths_rule, an, SharedRules(rep, "R14.R", "every place where from_code can stop with an exception is one confirmed by reading (shared with C02's R02.R)"), "R02.R", ["from_code"],
            _c02r.DECODER_REJECTIONS, "from_code")
    rep.run(decoded_placement_rule, an, rep)
    from rules.common import assert_guard_rule as _agr14
    rep.run(_agr14, an, rep, "R14.A", ["from_code", "iter", "all_code_data"])
    rep.run(r14f, an, rep)
    tg = an.tg
    ci = an.prog.cls(ROOT)
    it, ret = an.interp("iter")
    fn = an.prog.function("code_data::CodeData.__iter__")
    yielded = [a for a in it.elements(ret) if a[0] == "src"]
    others = [a for a in it.elements(ret) if a[0] not in ("src",)]
    w = loc(fn.module, fn.node)
    all_routes = []
    for f in ci.fields:
        for r in routes(an, tg.field_type(f), ROOT, (f.name,), (ROOT,)):
            all_routes.append(r)
    if len(all_routes) < 2:
        raise AnalysisError(f"type graph gives {all_routes} as routes to nested CodeData; expected at least blocks and _additional_args")
    for r in all_routes:
        hit = [a for a in yielded if tuple(st[1] for st in a[2] if st[0] == "a") == r]
        rep.add("R14.1", f"{fn.qual}::route {'.'.join(r)}", bool(hit), w,
                f"yields {fmt_atom(hit[0])}" if hit else
                f"a CodeData can hold a nested CodeData along {'.'.join(r)} (type graph) but __iter__ never yields it: "
                f"iteration / all_code_data() miss those code objects (e.g. a nested function left unreferenced in co_consts by dead-code elimination)")
    for a in yielded:
        t = it.src_type(a)
        ok = tg.classes_in(t) == {ROOT} and t[0] == "class"
        rep.add("R14.1", f"{fn.qual}::yield {'.'.join(st[1] for st in a[2] if st[0] == 'a')} is CodeData", ok, w,
                "yielded value is guarded to be a CodeData" if ok else f"yields {fmt_atom(a)} of type {tg.show(t)} without a CodeData guard")
    early = [n for n in ast.walk(fn.node) if isinstance(n, (ast.Break, ast.Return)) or (isinstance(n, ast.Continue))]
    early = [n for n in early if not (isinstance(n, ast.Return) and n is fn.node.body[-1])]
    rep.add("R14.1", f"{fn.qual}::no early exit", not [n for n in early if not isinstance(n, ast.Continue)], loc(fn.module, early[0]) if early else w,
            f"`{norm_src(early[0])}` at line {early[0].lineno} leaves the enumeration before every element was looked at: nested code objects behind that point (another kind of "
            f"unreferenced entry first, or code of a kind the early exit assumed away) are never yielded" if [n for n in early if not isinstance(n, ast.Continue)]
            else "every loop of the enumeration runs to completion")
    # every yield is guarded by type tests only (isinstance), not by properties of the object or of its position
    for y in [n for n in ast.walk(fn.node) if isinstance(n, (ast.Yield, ast.YieldFrom))]:
        from .encode_model import guards_of, parent_map
        st = y
        pm = parent_map(fn.module)
        while id(st) in pm and not isinstance(st, ast.stmt):
            st = pm[id(st)]
        gs = guards_of(fn.module, fn, st)
        nontype = []
        for g, pos in gs:
            parts = g.values if isinstance(g, ast.BoolOp) and isinstance(g.op, ast.And) else [g]
            for p_ in parts:
                is_type = isinstance(p_, ast.Call) and isinstance(p_.func, ast.Name) and p_.func.id == "isinstance"
                # de-duplication: `<yielded value> not in seen`, where `seen` is a local set that only ever receives yielded values
                is_dedup = False
                # the key is the yielded value itself or the operand it is taken from (`arg` for `yield arg.constant`)
                def _is_key(e):
                    return y.value is not None and (ast.dump(e) == ast.dump(y.value) or (isinstance(y.value, ast.Attribute) and ast.dump(e) == ast.dump(y.value.value)))
                if isinstance(p_, ast.Compare) and len(p_.ops) == 1 and isinstance(p_.ops[0], ast.NotIn) and isinstance(p_.comparators[0], ast.Name) and isinstance(y, ast.Yield) \
                        and y.value is not None and _is_key(p_.left):
                    sname = p_.comparators[0].id
                    inits = [a for a in ast.walk(fn.node) if isinstance(a, ast.Assign) and any(isinstance(t, ast.Name) and t.id == sname for t in a.targets)]
                    adds = [c for c in ast.walk(fn.node) if isinstance(c, ast.Call) and isinstance(c.func, ast.Attribute) and isinstance(c.func.value, ast.Name) and c.func.value.id == sname]
                    is_dedup = len(inits) == 1 and isinstance(inits[0].value, ast.Call) and getattr(inits[0].value.func, "id", "") == "set" and not inits[0].value.args \
                        and all(c.func.attr == "add" and len(c.args) == 1 and ast.dump(c.args[0]) == ast.dump(p_.left) for c in adds) and bool(adds)
                if not (is_type or is_dedup) or not pos:
                    nontype.append(p_)
        rep.add("R14.1", f"{fn.qual}::yield at line-independent guard {norm_src(st)[:40]}", not nontype, loc(fn.module, st),
                f"the yield is also conditional on `{norm_src(nontype[0])}`: some nested code objects of the right type are skipped" if nontype
                else "the yield is conditional on type tests only")
    # R14.4: one per code object - a constant loaded by several instructions (CPython merges equal lambdas; 3.9+ emits a `finally` body twice) is one entry
    rep.rule("R14.4", "each nested code object is yielded once, however many instructions load it", 1)
    inst_routes = [r for r in all_routes if len(r) >= 2 and r[0] == "blocks"]
    for y in [n for n in ast.walk(fn.node) if isinstance(n, ast.Yield) and n.value is not None]:
        yv = it.value_at(y.value)
        via_instr = any(a[0] == "src" and tuple(st[1] for st in a[2] if st[0] == "a") in inst_routes for a in yv)
        if not via_instr:
            continue
        from .encode_model import guards_of as _g2, parent_map as _p2
        st = y
        pm = _p2(fn.module)
        while id(st) in pm and not isinstance(st, ast.stmt):
            st = pm[id(st)]
        gs = _g2(fn.module, fn, st)
        # "once per instruction" can only be claimed when the yield sits in loops that walk self's own tuples directly
        cur = st
        direct = True
        targets = {fn.params[0]}
        loops = []
        while id(cur) in pm and pm[id(cur)] is not fn.node:
            cur = pm[id(cur)]
            if isinstance(cur, (ast.For, ast.While)):
                loops.append(cur)
        for lp in reversed(loops):
            if not isinstance(lp, ast.For):
                direct = False
                break
            itx = lp.iter
            while isinstance(itx, ast.Call) and isinstance(itx.func, ast.Name) and itx.func.id in ("enumerate", "reversed", "iter", "tuple", "list") and itx.args:
                itx = itx.args[0]
            base = itx
            while isinstance(base, ast.Attribute):
                base = base.value
            if not (isinstance(base, ast.Name) and base.id in targets) or any(isinstance(x, ast.Call) for x in ast.walk(itx)):
                if not (isinstance(itx, ast.Call) and isinstance(itx.func, (ast.Name, ast.Attribute)) and
                        ((isinstance(itx.func, ast.Attribute) and itx.func.attr == "fromkeys") or (isinstance(itx.func, ast.Name) and itx.func.id in ("set", "frozenset")))):
                    direct = False
                    break
            targets |= {x.id for x in ast.walk(lp.target) if isinstance(x, ast.Name)}
        if not direct:
            raise AnalysisError(f"{fn.qual}: the nested code objects reach `{norm_src(st)}` through `{norm_src(lp.iter)[:60]}`, not by walking self's blocks directly: "
                                f"how often each one is yielded (and whether any is dropped on the way) is not decided")
        dedup = any(isinstance(c, ast.Compare) and isinstance(c.ops[0], ast.NotIn) for g, pos in gs for c in ast.walk(g)) and \
            any(isinstance(c, ast.Call) and isinstance(c.func, ast.Attribute) and c.func.attr == "add" for c in ast.walk(fn.node))
        uniq_iter = any(isinstance(n, ast.For) and isinstance(n.iter, ast.Call) and ((isinstance(n.iter.func, ast.Attribute) and n.iter.func.attr == "fromkeys") or
                                                                                    (isinstance(n.iter.func, ast.Name) and n.iter.func.id in ("set", "frozenset")))
                        and any(x is y for x in ast.walk(n)) for n in ast.walk(fn.node))
        # ... and the set is keyed by the OPERAND (the Constant arg, whose equality includes the position of a duplicated entry), not by the nested
        # code object's value: two entries of co_consts can hold equal values (two lambdas whose only constant is a NaN)
        by_value = [c for g, pos in gs for c in ast.walk(g) if isinstance(c, ast.Compare) and isinstance(c.ops[0], ast.NotIn) and y.value is not None
                    and ast.dump(c.left) == ast.dump(y.value) and isinstance(y.value, ast.Attribute)]
        if dedup:
            rep.add("R14.4", f"{fn.qual}::the once-only set is keyed by the table entry, not by value", not by_value, loc(fn.module, st),
                    "keyed by the operand (its position override keeps duplicated entries apart)" if not by_value else
                    f"`{norm_src(by_value[0])}` keys the set by the nested code object's VALUE: two different entries of co_consts whose code objects decode to equal data (equality "
                    f"identifies all NaNs: `x = [lambda: 1e999-1e999, lambda: 1e999-1e999]`) are yielded once - all_code_data() returns fewer objects than the walk over co_consts")
        rep.add("R14.4", f"{fn.qual}::operands that load the same constant are yielded once", dedup or uniq_iter, loc(fn.module, st),
                "a set of already yielded constants (or an iteration over distinct constants) guards the yield" if dedup or uniq_iter else
                f"`{norm_src(st)}` runs once per *instruction*: a nested code object loaded by two instructions (`x = [lambda: 0, lambda: 0]` - CPython stores the two equal lambdas "
                f"as one constant; on 3.9+ the body of a `finally` is emitted twice) is yielded twice, so all_code_data() returns more objects than the walk over co_consts")
    if others:
        rep.add("R14.1", f"{fn.qual}::yields only parts of self", False, w, f"yields values not taken from self: {[fmt_atom(a) for a in others][:3]}")
    # R14.2
    it2, ret2 = an.interp("all_code_data")
    fn2 = an.prog.function("code_data::CodeData.all_code_data")
    body = [st for st in fn2.node.body if not (isinstance(st, ast.Expr) and isinstance(st.value, ast.Constant))]
    self_ = fn2.params[0]
    first = body[0] if body else None
    ok = isinstance(first, ast.Expr) and isinstance(first.value, ast.Yield) and isinstance(first.value.value, ast.Name) and first.value.value.id == self_
    rep.add("R14.2", f"{fn2.qual}::yields self first", ok, loc(fn2.module, fn2.node),
            "first statement is `yield self`" if ok else "the object itself is not yielded first")
    edges = {q for (c, q) in it2.call_edges if c == fn2.qual}
    ok = fn.qual in edges
    rep.add("R14.2", f"{fn2.qual}::iterates self", ok, loc(fn2.module, fn2.node),
            "children are taken from iter(self) (CodeData.__iter__)" if ok else "does not iterate self through __iter__")
    rec = fn2.qual in edges and any(isinstance(n, ast.YieldFrom) for n in ast.walk(fn2.node))
    rep.add("R14.2", f"{fn2.qual}::recurses", rec, loc(fn2.module, fn2.node),
            "`yield from child.all_code_data()` for every child" if rec else "does not recurse into the children's all_code_data()")
    # the recursion into each child is unconditional
    from .encode_model import guards_of as _gof, parent_map as _pm
    for y in [n for n in ast.walk(fn2.node) if isinstance(n, ast.YieldFrom)]:
        st = y
        pm = _pm(fn2.module)
        while id(st) in pm and not isinstance(st, ast.stmt):
            st = pm[id(st)]
        gs = _gof(fn2.module, fn2, st)
        rep.add("R14.2", f"{fn2.qual}::recursion is unconditional", not gs, loc(fn2.module, st),
                f"`{norm_src(st)}` only runs under `{norm_src(gs[0][0])}`: children for which it is false are yielded as leaves and everything nested below them is missed" if gs
                else "every child is descended into")
    early2 = [n for n in ast.walk(fn2.node) if isinstance(n, (ast.Break, ast.Return, ast.Continue))]
    rep.add("R14.2", f"{fn2.qual}::no early exit", not early2, loc(fn2.module, early2[0]) if early2 else loc(fn2.module, fn2.node),
            f"`{norm_src(early2[0])}` skips part of the enumeration" if early2 else "no break / continue / return in the traversal")
    el = it2.elements(ret2)
    ok = ("src", self_, ()) in el
    rep.add("R14.2", f"{fn2.qual}::result contains self", ok, loc(fn2.module, fn2.node), "abstract result contains self" if ok else "self not in result")
    # R14.3
    for V in VERSIONS:
        it3, ret3 = an.interp("from_code", V)
        api = an.prog.function("code_data::CodeData.from_code")
        callers = sorted(c for (c, q) in it3.call_edges if q == api.qual and c != api.qual and not c.endswith("<module>"))
        good = []
        for c in callers:
            f = an.prog.find_function(c)
            if f is None:
                continue
            guarded = any(isinstance(n, ast.Call) and isinstance(n.func, ast.Name) and n.func.id == "isinstance" and
                          any(isinstance(x, (ast.Name, ast.Attribute)) and (getattr(x, "id", None) == "CodeType" or getattr(x, "attr", None) == "CodeType") for x in ast.walk(n.args[1]))
                          for n in ast.walk(f.node))
            if guarded:
                good.append(c)
        rep.add("R14.3", "decoder::nested code constants -> CodeData.from_code", bool(good), loc(api.module, api.node),
                f"{good} maps a CodeType constant to CodeData.from_code(constant)" if good else
                "no function in the decode closure converts a nested CodeType constant with CodeData.from_code", config=vname(V))
        # every place a constant can be stored (instruction operands AND the unreferenced-entry list) holds a *converted* value: an element of
        # co_consts reaches Constant.constant only on the branch of the conversion on which it is known not to be a code object
        for label, steps in (("instruction operands", [("a", "blocks"), ("e",), ("e",), ("a", "arg"), ("t", ("Constant",)), ("a", "constant")]),
                             ("unreferenced table entries", [("a", "_additional_args"), ("e",), ("t", ("Constant",)), ("a", "constant")])):
            cv = it3.navigate(ret3, steps)
            raw = [a for a in cv if a[0] == "src" and a[1] == "code" and a[2][:1] == (("a", "co_consts"),)
                   and not any(st[0] == "nt" and "CodeType" in st[1] for st in a[2])]
            rep.add("R14.3", f"decoder::{label} hold converted constants", not raw, loc(api.module, api.node),
                    f"a raw element of co_consts ({fmt_atom(raw[0])}) can be stored as the constant of {label} without passing the CodeType -> CodeData conversion: a nested "
                    f"code object kept there is not a CodeData, so iteration skips it and everything below it" if raw
                    else f"constants of {label} are CodeData.from_code(...) or values known not to be code objects", config=vname(V))
        # the constants handed to the instruction decoder come from co_consts element-wise
        v = it3.navigate(ret3, [("a", "blocks"), ("e",), ("e",), ("a", "arg"), ("t", ("Constant",)), ("a", "constant")])
        org = {a for a in it3.origins(v) if a[0] == "src"}
        ok = any(a[2][:1] == (("a", "co_consts"),) for a in org)
        rep.add("R14.3", "decoder::Constant.constant <- co_consts[*]", ok, loc(api.module, api.node),
                "constants of decoded instructions originate in code.co_consts" if ok else f"constants originate in {sorted(fmt_atom(a) for a in org)}", config=vname(V))
    mc = an.prog.modules.get("code_data.module_codes")
    if mc is not None:
        found = False
        for f in an.prog.all_functions():
            if f.module is mc and f.parent is not None:
                rec = any(isinstance(n, ast.Call) and isinstance(n.func, ast.Name) and n.func.id == f.name for n in ast.walk(f.node))
                over = any(isinstance(n, ast.Attribute) and n.attr == "co_consts" for n in ast.walk(f.node))
                if rec and over:
                    found = True
                    rep.add("R14.3", f"{f.qual}::reference walk", True, loc(mc, f.node), "recursive walk over co_consts", nontrivial=False)
        if not found:
            rep.add("R14.3", "code_data.module_codes::reference walk", False, mc.relpath, "no recursive co_consts walk found", warn=True)
    rep.stats.update(an.stats([it, it2]))


def decoded_placement_rule(an: Analysis, rep, rule="R14.6"):
    """Where the decoder can put a decoded nested code object: for every field of every data-class instance the decode closure builds, a CodeData
    instance is found only at positions where the field's declared type has one (the positions __iter__ is checked against by R14.1).  A decoder
    that starts to look inside tuple / frozenset constants builds CodeData values the traversal never reaches."""
    rep.rule(rule, "a decoded nested code object is stored only where the declared types (and the traversal) expect one", 1)
    tg = an.tg
    n_fields = 0
    from .common import data_classes
    model = {c.qual for c in data_classes(an)}
    for V in VERSIONS:
        it, _ = an.interp("from_code", V)
        for (o, fld), vals in list(it.heap.items()):
            if o[0] != "obj" or not (isinstance(fld, tuple) and len(fld) == 2 and fld[0] == "a"):
                continue
            cq = it.obj_class(o)
            ci = an.prog.cls(cq) if cq else None
            f = ci.field(fld[1]) if ci is not None and ci.qual in model else None
            if f is None:
                continue
            n_fields += 1
            bad = []

            def allowed(t, seen=()):
                """(CodeData allowed here, element types one container level down)"""
                t = tg.unfold_rec(t)
                here, elems = False, []
                k = t[0]
                if k == "class":
                    here = t[1] == ROOT
                elif k in ("tuple", "frozenset", "list", "set"):
                    elems.append(t[1])
                elif k == "tuplefix":
                    elems.extend(t[1])
                elif k == "union":
                    for s in t[1]:
                        h, e = allowed(s)
                        here = here or h
                        elems.extend(e)
                elif k == "dict":
                    elems.append(t[2])
                return here, elems

            def walk(ts, atoms, depth, seen):
                here = any(allowed(t)[0] for t in ts)
                below = [e for t in ts for e in allowed(t)[1]]
                for a in atoms:
                    if a[0] != "obj" or a in seen:
                        continue
                    if it.obj_class(a) == ROOT:
                        if not here:
                            bad.append(depth)
                    elif it.obj_kind(a) in ("tuple", "frozenset", "list", "set") and depth < 6:
                        walk(below, it.elements(frozenset([a])), depth + 1, seen | {a})
            walk([tg.field_type(f)], vals, 0, frozenset())
            if bad:
                rep.add(rule, f"{ci.qual}.{f.name}::decoded code objects only where declared", False, loc(ci.module, f.node),
                        f"the decoder can store a decoded code object {bad[0]} container level(s) inside {ci.name}.{f.name}, whose declared type {tg.show(tg.field_type(f))[:80]} has no CodeData "
                        f"there: __iter__ / all_code_data() look where the types say a CodeData can be (R14.1), so this nested code object and everything below it is never yielded", config=vname(V))
    if n_fields < 40:
        raise AnalysisError(f"only {n_fields} (instance, field) pairs of the data model found in the decode closures: the heap walk lost its anchor")
    rep.add(rule, "decoded code objects sit at declared positions", True, "code_data/", f"{n_fields} (instance, field) pairs of the decode closures examined", nontrivial=False)


def r14f(an: Analysis, rep, rule="R14.F"):
    """__iter__ and all_code_data folded over a witness CodeData: one nested code object loaded by two instructions, one pinned at a position, one
    that no instruction loads, two table entries holding EQUAL code objects (kept apart by their positions), plain constants / names in between, and
    a nested code object with a nested code object of its own.  Expected from the property: iteration yields one object per table entry that
    holds a code object; all_code_data yields the object itself first and then every code object at any depth, once per table entry."""
    from sa.feval import BlockOutcome, Obj
    from .c03 import package_evaluator
    rep.rule(rule, "__iter__ / all_code_data folded over a witness with nested code objects in every position", 2)
    fn = an.prog.function("code_data::CodeData.__iter__")
    fn2 = an.prog.function("code_data::CodeData.all_code_data")
    ev, _R = package_evaluator(an, fn.module, (3, 10))
    L = ev.lib

    def cd(name, *consts, extra=()):
        ins = tuple(L["Instruction"](name="LOAD_CONST", arg=c, line_number=1) for c in consts) + (L["Instruction"](name="RETURN_VALUE", arg=L["NoArg"](0), line_number=1),)
        return L["CodeData"](blocks=(ins[:1], ins[1:]) if len(ins) > 1 else (ins,), _additional_args=tuple(extra), first_line_number=1, type=None, freevars=(), stacksize=1,
                             filename="f.py", name=name)
    try:
        D = cd("D")
        A = cd("A", L["Constant"](1), L["Constant"](D))
        B = cd("B")
        C = cd("C", extra=(L["Constant"](cd("E"), 1),))
        same1, same2 = cd("S"), cd("S")
        outer = cd("outer", L["Constant"](A), L["Constant"]("text"), L["Constant"](A), L["Constant"](B, 3), L["Constant"](same1, 5), L["Constant"](same2, 6),
                   extra=(L["Name"]("unused"), L["Constant"](C, 4), L["Constant"](None, 7)))
        direct = ev.call_method(fn.node, outer)
        every = ev.call_method(fn2.node, outer)
        # a function with a docstring, as the decoder reports co_consts ("doc", 7, <code F>, 5) met in the order F, 7, 5: F pinned at 2, 7 pinned at 1, 5 at its first-use rank
        fdoc = L["CodeData"](blocks=((L["Instruction"](name="LOAD_CONST", arg=L["Constant"](cd("F"), 2), line_number=1), L["Instruction"](name="LOAD_CONST", arg=L["Constant"](7, 1), line_number=1),
                                      L["Instruction"](name="LOAD_CONST", arg=L["Constant"](5), line_number=1), L["Instruction"](name="RETURN_VALUE", arg=L["NoArg"](0), line_number=1)),),
                             first_line_number=1, type=L["Function"](L["Args"](), "doc", None), freevars=(), stacksize=1, filename="f.py", name="with_doc")
        direct_doc = ev.call_method(fn.node, fdoc)
    except BlockOutcome as o:
        rep.add(rule, f"{fn.qual}::witness with nested code objects", False, loc(fn.module, o.node), f"iteration stops at `{norm_src(o.node)[:60]}`")
        return
    except Exception as ex:  # noqa: BLE001 - a gap of the evaluator, never a verdict
        raise AnalysisError(f"{fn.qual}: not evaluable on the witness data ({type(ex).__name__}: {ex})")
    names = lambda xs: [x.get("name") if isinstance(x, Obj) else repr(x) for x in xs]  # noqa: E731
    want_direct = sorted(["A", "B", "S", "S", "C"])
    ok1 = sorted(names(direct)) == want_direct
    rep.add(rule, f"{fn.qual}::one object per table entry that holds a code object", ok1, loc(fn.module, fn.node),
            "yields A (loaded twice: once), B (pinned), the two equal code objects at positions 5 and 6 (both), C (unreferenced); no plain constant" if ok1 else
            f"iteration over the witness yields {names(direct)}; the table entries holding code objects are {want_direct} (A is loaded by two instructions, the two S are equal code objects "
            f"at different positions, C is loaded by no instruction)")
    ok3 = names(direct_doc) == ["F"]
    rep.add(rule, f"{fn.qual}::a function with a docstring and pinned entries", ok3, loc(fn.module, fn.node),
            "yields the one nested code object (pinned at position 2, a plain constant without position after it)" if ok3 else
            f"iteration over the function witness (co_consts ('doc', 7, <code F>, 5) met in the order F, 7, 5) yields {names(direct_doc)}, expected ['F']")
    want_all = sorted(["A", "D", "B", "S", "S", "C", "E"])
    ok2 = bool(every) and names(every)[0] == "outer" and sorted(names(every)[1:]) == want_all
    rep.add(rule, f"{fn2.qual}::itself first, then every code object at any depth", ok2, loc(fn2.module, fn2.node),
            "yields outer, then A, D (nested in A), B, both S, C and E (unreferenced in C)" if ok2 else
            f"all_code_data() of the witness yields {names(every)}; expected 'outer' first and then {want_all} in some order")
