# Run on 3.8.18 / 3.9.18 / 3.10.13 with PYTHONPATH=/tmp/shim:/tmp/hunt3_C04
# A function code object with CO_NEWLOCALS but without CO_OPTIMIZED (hand-altered
# flags; the Python 2 style of a function with dict locals). CPython builds a
# function from it, runs it, and inspect reports signature, __doc__ and kind, but
# from_code raises ValueError, so no Args / docstring / type is decoded.
import inspect
import types
from code_data import CodeData, Function


def f(a, b=1, *c, d=2, **e):
    "doc"
    yield a


code = f.__code__.replace(co_flags=f.__code__.co_flags & ~inspect.CO_OPTIMIZED)
g = types.FunctionType(code, {}, "f", (1,), None)
assert str(inspect.signature(g)) == "(a, b=1, *c, d, **e)"
assert g.__doc__ == "doc" and inspect.isgeneratorfunction(g)
assert list(g(5, d=1)) == [5]  # runs normally

data = CodeData.from_code(code)  # ValueError: Expected both flags ...
assert isinstance(data.type, Function)
assert list(data.type.args.parameters) == ["a", "b", "c", "d", "e"]
assert data.type.docstring == "doc" and data.type.type == "GENERATOR"
