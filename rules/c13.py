"""C13 - blocks are exactly the jump-target partition of the instruction sequence (DESIGN 5, R13.1-R13.4)."""
from __future__ import annotations

import ast
from typing import List, Optional

from sa.analysis import VERSIONS, Analysis, vname
from sa.feval import feval
from sa.model import AnalysisError, loc, norm_src

from .c02 import find_parser
from .common import attr_chain
from .encode_model import guards_of, parent_map

MUT = {"add", "update", "discard", "remove", "pop", "clear", "difference_update", "intersection_update", "symmetric_difference_update"}


def run(an: Analysis, rep):
    rep.explanation = (
        "Decides that block boundaries are a function of the set {0} U {decoded jump targets} and nothing else: the target set is "
        "initialised to {0}; its only other write is an add of the target of a value that is a Jump as returned by the operand "
        "decoder, executed for every such value; a new block is opened iff the instruction's first offset is in (the sorted copy "
        "of) that set; the instruction is appended to the current block unconditionally after that (so no block is empty and the "
        "blocks partition the sequence in order); a jump's target is replaced by its index in the same sorted list. That the "
        "looked-up value is the byte offset CPython jumps to is C02 (R02.3)."
    )
    rep.rule("R13.1", "target set initialised to {0}", 1)
    rep.rule("R13.2", "only decoded jump targets are added, and every one of them", 3)
    rep.rule("R13.3", "a block is opened iff the first offset is a target; instructions appended unconditionally", 4)
    rep.rule("R13.4", "jump target index taken from the same sorted list", 2)
    from .common import purity
    rep.run(purity, an, rep, "R13.P", ["from_code"])
    rep.run(block_rules, an, rep)
    from .common import local_memo_rule
    rep.run(local_memo_rule, an, rep, "R13.M", ["from_code", "to_code"])
    rep.run(r135, an, rep)
    rep.run(r136, an, rep)
    from .common import SharedRules
    from . import c02
    rep.run(c02.jump_rules, an, SharedRules(rep, "R13.J", "decoded jump targets are the offsets CPython jumps to (shared with C02's R02.3/R02.5): blocks start exactly there"), False)
    shx = SharedRules(rep, "R13.X", "jump operands are reassembled from all their EXTENDED_ARG prefixes (shared with C02's R02.6/R02.7): a target beyond 65535 still starts a block")
    rep.run(c02.r026, an, shx)
    rep.run(c02.r027, an, shx)
    rep.run(c02.r028, an, shx)
    from .common import identity_rule
    rep.run(identity_rule, an, rep, "R13.I", ["from_code"])
    from .common import field_rewrite_rule as _frr13
    rep.run(_frr13, an, rep, "R13.W")
    from .common import assert_guard_rule as _agr13
    rep.run(_agr13, an, rep, "R13.A", ["from_code"])
    rep.run(c02.r02f, an, SharedRules(rep, "R13.F", "the decoder's instruction function folded over witness code units (shared with C02's R02.F): the blocks it returns begin exactly at "
                                                   "offset 0 and at the jump targets, none is empty, every jump holds the index of the block at its target"))
    rep.stats.update(an.stats([an.interp("from_code")[0]]))
    rep.assumptions += ["compiler output never jumps into the middle of an EXTENDED_ARG sequence (CPython's assembler targets the first unit)"]


def r136(an: Analysis, rep, rule="R13.6"):
    """A jump whose target is not the first code unit of a decoded instruction (it lands behind an EXTENDED_ARG prefix, or past the last
    instruction - CPython executes the former) starts no block: the statements between the decoding loop and the block-building loop are
    folded over witness (instruction offsets, jump targets) pairs and must raise exactly for such targets."""
    from sa.feval import BlockOutcome, FevalError, ObjEval
    rep.rule(rule, "a jump target that is not the start of a decoded instruction makes from_code raise", 1)
    it, _ = an.interp("from_code")
    pf = find_parser(an)
    cons = None
    for f in an.closure("from_code"):
        for n in ast.walk(f.node):
            if isinstance(n, ast.For) and isinstance(n.iter, ast.Call) and pf.qual in it.callees.get(id(n.iter), ()):
                cons = (f, n)
    if cons is None:
        raise AnalysisError("decoder main loop not found")
    f, loop1 = cons
    adds = [n for n in ast.walk(loop1) if isinstance(n, ast.Call) and isinstance(n.func, ast.Attribute) and n.func.attr == "add"
            and isinstance(n.func.value, ast.Name) and n.args and isinstance(n.args[0], ast.Attribute) and n.args[0].attr == "target"]
    if len(adds) != 1:
        raise AnalysisError(f"{f.qual}: jump-target set not recognised")
    T = adds[0].func.value.id
    from .c02 import parser_offset_positions
    roles, _y = parser_offset_positions(pf)
    first_pos = roles.get("first")
    tn = [t.id if isinstance(t, ast.Name) else None for t in (loop1.target.elts if isinstance(loop1.target, ast.Tuple) else [])]
    if first_pos is None or first_pos >= len(tn) or tn[first_pos] is None:
        raise AnalysisError(f"{f.qual}: the loop variable holding an instruction's first offset is not recognised")
    off = tn[first_pos]
    # the record of decoded instructions: X.append((..., off, ...))
    recs = [c for c in ast.walk(loop1) if isinstance(c, ast.Call) and isinstance(c.func, ast.Attribute) and c.func.attr == "append" and isinstance(c.func.value, ast.Name)
            and len(c.args) == 1 and isinstance(c.args[0], ast.Tuple) and any(isinstance(e, ast.Name) and e.id == off for e in c.args[0].elts)]
    if len(recs) != 1:
        raise AnalysisError(f"{f.qual}: the list of (offset, instruction) records is not recognised")
    R = recs[0].func.value.id
    opos = [i for i, e in enumerate(recs[0].args[0].elts) if isinstance(e, ast.Name) and e.id == off][0]
    width = len(recs[0].args[0].elts)
    body = f.node.body
    i1 = next((i for i, st in enumerate(body) if st is loop1), None)
    if i1 is None:
        raise AnalysisError(f"{f.qual}: decoding loop is not a top-level statement")
    between = []
    for st in body[i1 + 1:]:
        if isinstance(st, (ast.For, ast.While)) and not any(isinstance(x, ast.Raise) for x in ast.walk(st)):
            break
        between.append(st)
    a = f.node.args
    bparam = f.params[0]

    def run(offsets, targets, size):
        ev = ObjEval(lambda name: None, extra={})
        ev.module_assigns = f.module.assigns
        env = {T: set(targets), R: [tuple(o if k == opos else f"ins@{o}" for k in range(width)) for o in offsets], bparam: bytes(size)}
        try:
            ev.exec(between, env)
        except BlockOutcome:
            return True
        return False
    # instructions at 0, 2, 4 (two code units: 4..8), 8; code is 10 bytes long
    offs, size = [0, 2, 4, 8], 10
    W = [({0}, False), ({0, 4}, False), ({0, 8, 2}, False), ({0, 6}, True), ({0, 10}, True), ({0, 4, 6}, True),
         # byte offsets that are not even a code unit (3.7-3.9 jump operands count bytes), or lie before the code
         ({0, 3}, True), ({0, 5, 8}, True), ({0, 9}, True), ({0, -2}, True), ({0, 12}, True)]
    bad = []
    try:
        for targets, want in W:
            got = run(offs, targets, size)
            if got != want:
                bad.append((sorted(targets), want, got))
        empty_ok = not run([], {0}, 0)
    except (FevalError, KeyError, TypeError, IndexError, ValueError) as ex:
        raise AnalysisError(f"{f.qual}: the statements between the decoding loop and the block loop are not evaluable ({type(ex).__name__}: {ex})")
    if not empty_ok:
        bad.append(([0], False, True))
    missed = [b for b in bad if b[1]]
    rep.add(rule, f"{f.qual}::targets inside an instruction or past the end are rejected", not bad, loc(f.module, between[0] if between else loop1),
            f"instructions at {offs} (the one at 4 has an EXTENDED_ARG prefix), code of {size} bytes: targets 6, 10, 12, odd offsets and -2 raise, targets at instruction starts (and empty code) do not" if not bad else
            (f"with instructions at {offs} (the one at 4 has an EXTENDED_ARG prefix, its opcode sits at 6) a jump to {[t for t in missed[0][0] if t not in offs]} is accepted (hand-written "
             f"bytecode: behind a prefix, past the end, before the code, or - 3.7-3.9 count bytes - in the middle of a code unit), but no block starts there - the jump gets the index of a "
             f"block that does not exist or of another block, and to_code() of the returned data raises KeyError or jumps elsewhere" if missed else
             f"jump targets {bad[0][0]} at instruction starts make from_code raise"))

def block_rules(an: Analysis, rep):
    it, _ = an.interp("from_code")
    pf = find_parser(an)
    cons = None
    for f in an.closure("from_code"):
        for n in ast.walk(f.node):
            if isinstance(n, ast.For) and isinstance(n.iter, ast.Call) and pf.qual in it.callees.get(id(n.iter), ()):
                cons = (f, n)
    if cons is None:
        raise AnalysisError("decoder main loop not found")
    f, loop1 = cons
    # --- the target set: receiver of .add(<x>.target) inside loop1
    adds = [n for n in ast.walk(loop1) if isinstance(n, ast.Call) and isinstance(n.func, ast.Attribute) and n.func.attr == "add"
            and isinstance(n.func.value, ast.Name) and n.args and isinstance(n.args[0], ast.Attribute) and n.args[0].attr == "target"]
    if len(adds) != 1:
        # maybe the add is gone: look for a set initialised before the loop and sorted afterwards
        cand = _sorted_set_name(f)
        if cand is None:
            raise AnalysisError(f"{f.qual}: jump-target set not recognised")
        T = cand
        rep.add("R13.2", f"{f.qual}::every decoded jump target is added", False, loc(f.module, loop1),
                f"no `{T}.add(<jump>.target)` in the instruction loop: instructions that are jumped to do not start a block")
        addcall = None
    else:
        addcall = adds[0]
        T = addcall.func.value.id
    w = loc(f.module, f.node)
    # R13.1: the block-start list is {0} U {jump targets}, sorted, without repetition - decided on the list the block loop uses, so that
    # `T = {0}; sorted(T)` and `T = set(); sorted({0} | T)` are the same fact and `[0, *sorted(T)]` (0 twice when something jumps to 0) is not
    inits = [n for n in ast.walk(f.node) if isinstance(n, ast.Assign) and any(isinstance(t, ast.Name) and t.id == T for t in n.targets)]
    ok = False
    w = loc(f.module, f.node)
    detail = f"`{T}` has {len(inits)} assignments"
    listdef = None
    for n in ast.walk(f.node):
        if isinstance(n, ast.Assign) and isinstance(n.targets[0], ast.Name) and any(isinstance(x, ast.Name) and x.id == T for x in ast.walk(n.value)) \
                and any(isinstance(c, ast.Compare) and isinstance(c.ops[0], ast.In) and isinstance(c.comparators[0], ast.Name) and c.comparators[0].id == n.targets[0].id for c in ast.walk(f.node)):
            listdef = n
    if len(inits) == 1:
        w = loc(f.module, inits[0])
        try:
            init = set(feval(inits[0].value, {"set": set, "frozenset": frozenset}))
            bad = []
            expr = listdef.value if listdef is not None else ast.Name(T, ast.Load())
            for X in (set(), {4, 10}, {0, 4, 10}, {0}):
                got = feval(expr, {T: frozenset(init | X), "sorted": sorted, "set": set, "list": list, "frozenset": frozenset})
                got = list(got) if not isinstance(got, (set, frozenset)) else got
                want = sorted({0} | X)
                if isinstance(got, (set, frozenset)):
                    if set(got) != set(want):
                        bad.append(f"jump targets {sorted(X)}: block starts {sorted(got)}, expected {want}")
                elif got != want:
                    bad.append(f"jump targets {sorted(X)}: block-start list {got}, expected {want}")
            ok = not bad
            detail = (f"`{norm_src(inits[0])}`" + (f" and `{norm_src(listdef)}`" if listdef is not None else "") + " give exactly [0] + the jump targets, sorted and without repetition") if ok else \
                (f"`{norm_src(inits[0])}`" + (f" with `{norm_src(listdef)}`" if listdef is not None else "") + ": " + "; ".join(bad[:2]) +
                 " - the first instruction does not open a block, or an offset appears twice so every later block index is shifted")
        except Exception as ex:
            detail = f"block-start list not evaluable ({ex})"
    rep.add("R13.1", f"{f.qual}::block starts are [0] + jump targets, sorted, unique", ok, w, detail)
    # R13.2 other writes
    others = []
    for n in ast.walk(f.node):
        if isinstance(n, ast.Call) and isinstance(n.func, ast.Attribute) and isinstance(n.func.value, ast.Name) and n.func.value.id == T and n.func.attr in MUT and n is not addcall:
            others.append(n)
        if isinstance(n, ast.AugAssign) and isinstance(n.target, ast.Name) and n.target.id == T:
            others.append(n)
    rep.add("R13.2", f"{f.qual}::no other write to the target set", not others, loc(f.module, others[0]) if others else loc(f.module, f.node),
            f"`{norm_src(others[0])}` also modifies the target set: blocks would start at offsets no jump targets" if others else "the only write after initialisation is the add of a jump target")
    if addcall is not None:
        pm = parent_map(f.module)
        stmt = pm[id(addcall)]
        gs = guards_of(f.module, f, stmt)
        # the guard must be exactly isinstance(X, Jump) with X the value returned by the operand decoder
        X = addcall.args[0].value
        okg = (len(gs) == 1 and gs[0][1] and isinstance(gs[0][0], ast.Call) and isinstance(gs[0][0].func, ast.Name) and gs[0][0].func.id == "isinstance"
               and ast.dump(gs[0][0].args[0]) == ast.dump(X) and "Jump" in {x.id for x in ast.walk(gs[0][0].args[1]) if isinstance(x, ast.Name)})
        # no continue/break before it in the loop body
        early = [n for n in ast.walk(loop1) if isinstance(n, (ast.Continue, ast.Break)) and n.lineno < stmt.lineno]
        rep.add("R13.2", f"{f.qual}::every decoded jump target is added", okg and not early, loc(f.module, stmt),
                f"`{norm_src(stmt)}` runs for every operand that is a Jump" if okg and not early else
                f"the add is guarded by {[norm_src(g) + ('' if p else ' (negated)') for g, p in gs]}" + (" after an early continue/break" if early else "") +
                ": some jump targets do not open a block, so a jump's target index designates the wrong instruction")
        # X is what the operand decoder returned and what the instruction stores
        vals = it.value_at(X)
        jumps = [a for a in vals if a[0] == "obj" and (it.obj_class(a) or "").endswith("::Jump")]
        used_as_arg = any(isinstance(k, ast.keyword) and k.arg == "arg" and ast.dump(k.value) == ast.dump(X) for k in ast.walk(loop1))
        rep.add("R13.2", f"{f.qual}::the tested operand is the decoded operand stored in the instruction", bool(jumps) and used_as_arg, loc(f.module, stmt),
                f"`{norm_src(X)}` holds the operand decoder's result ({len(jumps)} abstract Jump object(s)) and is stored as Instruction.arg" if jumps and used_as_arg
                else f"`{norm_src(X)}` is not the operand stored in the instruction")
    # --- second loop
    sorted_assign = listdef
    S = listdef.targets[0].id if listdef is not None else T
    is_sorted = ok  # established by evaluation above: the list is sorted and free of repetitions
    loops = [n for n in f.node.body if isinstance(n, ast.For) and n is not loop1 and n.lineno > loop1.lineno]
    loop2 = None
    for lp in loops:
        if any(isinstance(c, ast.Compare) and isinstance(c.ops[0], ast.In) and isinstance(c.comparators[0], ast.Name) and c.comparators[0].id in (S, T) for c in ast.walk(lp)):
            loop2 = lp
    if loop2 is None:
        raise AnalysisError(f"{f.qual}: block-building loop not recognised")
    # the offset variable of loop2 must carry the first offsets recorded in loop1
    off = loop2.target.elts[0].id if isinstance(loop2.target, ast.Tuple) and isinstance(loop2.target.elts[0], ast.Name) else None
    first_name = _first_offset_name(an, pf, loop1)
    src_list = loop2.iter.id if isinstance(loop2.iter, ast.Name) else None
    rec = [n for n in ast.walk(loop1) if isinstance(n, ast.Call) and isinstance(n.func, ast.Attribute) and n.func.attr == "append"
           and isinstance(n.func.value, ast.Name) and n.func.value.id == src_list and n.args and isinstance(n.args[0], ast.Tuple)]
    ok_off = bool(rec) and isinstance(rec[0].args[0].elts[0], ast.Name) and rec[0].args[0].elts[0].id == first_name and off is not None \
        and not guards_of(f.module, f, parent_map(f.module)[id(rec[0])])
    rep.add("R13.3", f"{f.qual}::block test uses the instruction's first offset", ok_off, loc(f.module, loop2),
            f"loop 2 iterates the (first offset, instruction) pairs recorded unconditionally for every instruction" if ok_off
            else "the offsets iterated by the block-building loop are not the first-unit offsets recorded for every instruction")
    creators = []
    for st in loop2.body:
        if isinstance(st, ast.If):
            t = st.test
            if isinstance(t, ast.Compare) and len(t.ops) == 1 and isinstance(t.ops[0], ast.In) and isinstance(t.left, ast.Name) and t.left.id == off \
                    and isinstance(t.comparators[0], ast.Name) and t.comparators[0].id in (S, T):
                creators.append(st)
    new_block_sites = [n for n in ast.walk(loop2) if isinstance(n, ast.Call) and isinstance(n.func, ast.Attribute) and n.func.attr == "append"
                       and n.args and isinstance(n.args[0], (ast.Name, ast.List)) and _is_block_list(n.args[0], loop2)]
    ok_c = len(creators) == 1 and not creators[0].orelse and all(any(n is x for x in ast.walk(creators[0])) for n in new_block_sites) and bool(new_block_sites)
    rep.add("R13.3", f"{f.qual}::a block is opened iff the first offset is a target", ok_c, loc(f.module, creators[0]) if creators else loc(f.module, loop2),
            f"`if {off} in {creators[0].test.comparators[0].id}:` is the only place a block is created" if ok_c else
            "block creation is not guarded exactly by membership of the instruction's first offset in the target set (no more, no fewer)")
    # unconditional append of the instruction after the creation
    blockvar = None
    if creators:
        for st in creators[0].body:
            if isinstance(st, ast.Assign) and isinstance(st.targets[0], ast.Name) and isinstance(st.value, ast.List):
                blockvar = st.targets[0].id
    app = [st for st in loop2.body if isinstance(st, ast.Expr) and isinstance(st.value, ast.Call) and isinstance(st.value.func, ast.Attribute)
           and st.value.func.attr == "append" and isinstance(st.value.func.value, ast.Name) and st.value.func.value.id == blockvar]
    ok_a = bool(app) and creators and loop2.body.index(app[-1]) > loop2.body.index(creators[0]) and not any(isinstance(n, (ast.Continue, ast.Break)) for n in ast.walk(loop2))
    rep.add("R13.3", f"{f.qual}::every instruction is appended to the current block", bool(ok_a), loc(f.module, app[-1]) if app else loc(f.module, loop2),
            f"`{norm_src(app[-1])}` is unconditional and follows block creation: no block is empty and the blocks partition the sequence in order" if ok_a
            else "the instruction is not appended unconditionally after block creation: blocks can be empty or instructions dropped")
    rep.add("R13.3", f"{f.qual}::membership list is the target set", S == T or sorted_assign is not None, loc(f.module, sorted_assign or loop2),
            f"`{S}` = {norm_src(sorted_assign.value) if sorted_assign is not None else T}", nontrivial=False)
    # R13.4
    idx = [n for n in ast.walk(loop2) if isinstance(n, ast.Call) and isinstance(n.func, ast.Attribute) and n.func.attr == "index"]
    bis = [n for n in ast.walk(loop2) if isinstance(n, ast.Call) and (attr_chain(n.func) or "").split(".")[-1] in ("bisect_left", "bisect", "bisect_right")]
    part = [n for n in bis if len(n.args) > 2 or n.keywords]
    if part:
        raise AnalysisError(f"{f.qual}: `{norm_src(part[0])}` searches only a part of the sorted target list: whether that part always contains the target (a jump to the "
                            f"instruction itself, to the current block, ...) is a loop invariant this check does not decide")
    whole = [n for n in bis if len(n.args) == 2 and (attr_chain(n.func) or "").split(".")[-1] == "bisect_left" and isinstance(n.args[0], ast.Name) and n.args[0].id == S]
    ok_i = len(idx) == 1 and isinstance(idx[0].func.value, ast.Name) and idx[0].func.value.id == S and is_sorted \
        and isinstance(idx[0].args[0], ast.Attribute) and idx[0].args[0].attr == "target"
    if not idx and len(whole) == 1 and is_sorted:
        # bisect_left over the whole sorted list of distinct targets is the index of a member
        idx = whole
        ok_i = True
    rep.add("R13.4", f"{f.qual}::target replaced by its index in the sorted target list", bool(ok_i), loc(f.module, idx[0]) if idx else loc(f.module, loop2),
            f"`{norm_src(idx[0])}` on the sorted block-start list `{S}`: target k is the k-th block" if ok_i else
            f"jump targets are not replaced by their position in the sorted target list that drives block creation" + ("" if is_sorted else f" (`{S}` is not sorted({T}))"))
    # where the index goes: `target=<index>` of a replace(...) / Jump(...) call, or the first positional argument of Jump(...)
    sites = [k.value for k in ast.walk(loop2) if isinstance(k, ast.keyword) and k.arg == "target"]
    jump_fields = [fl.name for fl in an.prog.cls("code_data::Jump").fields]
    for c in ast.walk(loop2):
        if isinstance(c, ast.Call) and isinstance(c.func, ast.Name) and c.func.id == "Jump" and c.args and jump_fields and jump_fields[0] == "target":
            sites.append(c.args[0])
    if idx and not any(any(n is idx[0] for n in ast.walk(sv)) for sv in sites):
        raise AnalysisError(f"{f.qual}: where the block index `{norm_src(idx[0])}` is stored is not recognised (neither `target=` nor the first argument of Jump(...))")
    site = next((sv for sv in sites if idx and any(n is idx[0] for n in ast.walk(sv))), None)
    ok_k = site is not None and any(
        isinstance(g[0], ast.Call) and "Jump" in {x.id for x in ast.walk(g[0]) if isinstance(x, ast.Name)} for g in guards_of(f.module, f, _stmt_of(f, site)))
    rep.add("R13.4", f"{f.qual}::only jump operands are rewritten", bool(ok_k), loc(f.module, site) if site is not None else loc(f.module, loop2),
            "the rewrite is guarded by isinstance(arg, Jump) and stores the index as Jump.target" if ok_k else
            "the index of the target block is stored without an isinstance(arg, Jump) guard around it: operands that are not jumps are rewritten too")


def r135(an: Analysis, rep, rule="R13.5"):
    """What the instruction decoder returns is what CodeData.blocks holds, and what to_code encodes is CodeData.blocks."""
    rep.rule(rule, "decoded blocks reach CodeData.blocks unmodified; the encoder encodes exactly CodeData.blocks", 2)
    for V in VERSIONS:
        it, ret = an.interp("from_code", V)
        pf = find_parser(an)
        # the function that consumes the parser and returns the blocks
        dec = None
        for f in an.closure("from_code", V):
            if any(isinstance(n, ast.Call) and pf.qual in it.callees.get(id(n), ()) for n in ast.walk(f.node)) and f is not pf:
                dec = f
        if dec is None:
            raise AnalysisError("instruction decoder not found")
        dret = frozenset()
        for (q, ctx), summ in it.summaries.items():
            if q == dec.qual:
                dret = dret | summ["ret"]
        produced = it.read_key(dret, 0)
        stored = frozenset()
        for a in ret:
            stored = stored | it.hget(a, ("a", "blocks"))
        extra = [a for a in stored if a not in produced]
        rep.add(rule, "decoder::CodeData.blocks is the instruction decoder's result", not extra and bool(stored), "code_data/_code_data.py",
                f"CodeData.blocks may hold a value built after decoding ({extra[0][1][3]} created at {extra[0][1][0]}:{extra[0][1][1]}): instructions are added, dropped or regrouped "
                f"behind the decoder's back, so the blocks are no longer the partition of the instruction sequence CPython has" if extra
                else "the `blocks` field receives exactly the first component of the decoder's result", config=vname(V))
        # the decoder is handed code.co_code itself
        bad = []
        for (q, ctx), summ in it.summaries.items():
            if q == pf.qual:
                for pn, v in summ["args"].items():
                    for a in v:
                        if not (a[0] == "src" and a[1] == "code" and a[2] == (("a", "co_code"),)):
                            bad.append(a)
        rep.add(rule, "decoder::the parser is given co_code itself", not bad, loc(pf.module, pf.node),
                f"the bytecode parser receives {bad[0][0]} {bad[0][1] if bad[0][0] != 'src' else ''}, not code.co_code: offsets no longer are CPython's offsets" if bad
                else "the parser's only input is code.co_code", config=vname(V))
        it_e, _ = an.interp("to_code", V)
        enc_bad = []
        for g in an.closure("to_code", V):
            for n in ast.walk(g.node):
                if isinstance(n, ast.Attribute) and n.attr == "blocks" and isinstance(n.ctx, ast.Load):
                    pass
        # every iteration source named `...blocks` in the encoder is the argument's own field
        for (q, ctx), summ in it_e.summaries.items():
            f2 = an.prog.find_function(q)
            if f2 is None or f2.cls is not None:
                continue
            for pn, v in summ["args"].items():
                if pn == "blocks":
                    for a in v:
                        if not (a[0] == "src" and a[1] == "self" and a[2] and a[2][-1] == ("a", "blocks")):
                            enc_bad.append((q, a))
        rep.add(rule, "encoder::encodes CodeData.blocks itself", not enc_bad, "code_data/_code_data.py",
                f"{enc_bad[0][0]} receives blocks that are not the CodeData's own `blocks` field ({enc_bad[0][1][0]}): instructions are added or removed on the way to the bytes" if enc_bad
                else "the block encoder receives the `blocks` field unmodified", config=vname(V))


def _stmt_of(f, node):
    pm = parent_map(f.module)
    cur = node
    while id(cur) in pm and not isinstance(cur, ast.stmt):
        cur = pm[id(cur)]
    return cur


def _is_block_list(arg, loop2) -> bool:
    if isinstance(arg, ast.List):
        return True
    # a name assigned a fresh list in the loop
    for n in ast.walk(loop2):
        if isinstance(n, ast.Assign) and isinstance(n.targets[0], ast.Name) and n.targets[0].id == arg.id and isinstance(n.value, ast.List):
            return True
    return False


def _sorted_set_name(f) -> Optional[str]:
    for n in ast.walk(f.node):
        if isinstance(n, ast.Call) and isinstance(n.func, ast.Name) and n.func.id == "sorted" and n.args and isinstance(n.args[0], ast.Name):
            return n.args[0].id
    return None


def _first_offset_name(an, pf, loop1) -> Optional[str]:
    from .c02 import parser_offset_positions
    roles, _ = parser_offset_positions(pf)
    if "first" in roles and isinstance(loop1.target, ast.Tuple):
        return loop1.target.elts[roles["first"]].id
    return None
