#!/usr/bin/env python3
"""Regenerates DESIGN.md section 11 (table of seeded changes and the rules that catch them) from seeded/*/meta.json."""
import json, os, re
V = os.path.dirname(os.path.dirname(os.path.abspath(__file__)))
rows = []
for sid in sorted(os.listdir(os.path.join(V, "seeded"))):
    p = os.path.join(V, "seeded", sid, "meta.json")
    if not os.path.exists(p):
        continue
    m = json.load(open(p))
    note = ""
    np_ = os.path.join(V, "seeded", sid, "note.md")
    if os.path.exists(np_):
        txt = [l.strip() for l in open(np_).read().splitlines() if l.strip() and not l.startswith("#")]
        note = " ".join(txt)[:230].replace("|", "/")
    res = m.get("check_result_at_commit", {})
    keys = re.findall(r"'(R\d\d\.[0-9A-Z]+)[:\]]", res.get("findings", "")) or re.findall(r"\"(R\d\d\.[0-9A-Z]+)[:\]]", res.get("findings", ""))
    rows.append((sid, m["property"], m.get("round", 1), note, res.get("status", "?"), ", ".join(sorted(set(keys)))))
caught = sum(1 for r in rows if r[4] == "CAUGHT")
undecided = []
for sid in sorted(os.listdir(os.path.join(V, "seeded")), key=lambda x: (x.split("-")[0], int(x.split("-")[1]))):
    p_ = os.path.join(V, "seeded", sid, "meta.json")
    if not os.path.exists(p_):
        continue
    m_ = json.load(open(p_))
    r_ = m_.get("check_result_at_commit", {})
    if r_.get("status") == "CAUGHT":
        continue
    np_ = os.path.join(V, "seeded", sid, "note.md")
    head = ""
    if os.path.exists(np_):
        head = next((l.strip().lstrip("# ").strip() for l in open(np_).read().splitlines() if l.strip()), "")[:150]
    msg = re.sub(r"^\[?['\"]?ANALYSIS-ERROR property=C\d\d: ", "", str(r_.get("findings", "")))[:330].replace("|", "/")
    if r_.get("status") == "ANALYSIS-ERROR":
        undecided.append(f"* {sid} - {head}: exit 2 - {msg}")
    else:
        undecided.append(f"* {sid} - {head}: the check of {m_['property']} passes; {msg or 'checks of other properties report it (see the last column)'}")
out = ["## 11. Seeded changes written by independent sub-agents, and which rules catch them", "",
       "Each change was written by a fresh sub-agent that saw only the text of one property and a scratch worktree of /repo (nothing from /verif), in twelve rounds "
       "(each later round was told which ideas the earlier rounds had used and asked for different ones; `tools/prep_round.py` prepares the worktrees). Every change kept here was confirmed by `tools/verify_seed.py` in the scratch "
       "worktree: the patch applies to /repo's HEAD of that time, the 30 baseline tests still pass, and the demonstration fails with the change and passes without it on at least one of "
       "the interpreters 3.7-3.10 (3.12 for the JSON-only ones). `tools/seeded.py` applies each patch to a scratch copy (never to /repo) and runs the quick check of the "
       "property it targets (`--record` stores the outcome in meta.json; `--transform=unparse|rename|black60` re-formats the changed tree first). Seeds whose patch stopped applying "
       "after a later `fix:` commit are evaluated on the tree they were written against (taken from /repo's history) and only the findings the change adds are counted.", "",
       f"Result at the last commit that touched the rules: **{caught} of {len(rows)}** changes make the check of *their own* property exit 1 with a finding naming the changed construct; "
       "the others are listed below, none passes every check silently. "
       "History of first evaluations (before the rule work each round caused): round 1 - 16 of 36 caught by their own check (30 of 45 by some check); round 2 - 11 of 30; round 3 - 14 of 48 "
       "(22 by some check, 8 more at exit 2); round 4 - 12 of 48 (30 by some check, 7 more at exit 2); round 5 - 21 of 48; round 6 - 15 of 48; round 7 - 27 of 48; round 8 - 20 of 48 "
       "(9 by no check); round 9 - 29 of 48 (2 by no check); round 10 - 36 of 48 (6 by no check); round 11 - 28 of 48 (8 by no check). The misses drove most of the rule additions listed in section 0a. "
       "Not decided by the check of their own property, at the last recorded run:", ""] + undecided + ["",
       "(Exit 2 from a rejection-path rule is by design: a new `raise` on input the compiler can produce is 'not decided', because whether valid input reaches it needs more than the shape of the code. "
       "C13-23, C13-29 and C13-30 change normalize() / the JSON loader, whose results C13 - a statement about decoded data - does not cover; C05, C06 and others report them.)", "",
       "| id | round | what the change does (from the sub-agent's note) | own check | rules that fire |", "|---|---|---|---|---|"]
for sid, pid, rnd, note, st, keys in rows:
    out.append(f"| {sid} | {rnd} | {note} | {st} | {keys} |")
text = "\n".join(out) + "\n"
p = os.path.join(V, "DESIGN.md")
s = open(p).read()
i = s.find("## 11. Seeded changes written by independent sub-agents")
if i >= 0:
    s = s[:i].rstrip() + "\n\n" + text
else:
    s = s.rstrip() + "\n\n---------------------------------------------------------------------------------\n\n" + text
open(p, "w").write(s)
print(caught, len(rows))
