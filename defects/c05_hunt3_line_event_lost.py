# Run with 3.8.18 or 3.9.18 (PYTHONPATH=/tmp/shim:/tmp/hunt3_C05); 3.7 / 3.10 compile no such table.
# normalize() drops a pair of co_lnotab entries (+1, -1 at one address) which makes
# CPython report a 'line' event, so the traced line events of the program change.
import sys
from code_data import CodeData

SRC = "def g(): return 1\nx = [g(), lambda a=1,\n b=2: 0]\n"
# second trigger (same table shape): "def g(): return 1\ny = g() + (5 if\n 1 else 3)\n"


def line_events(code):
    events = []

    def tracer(frame, event, arg):
        if frame.f_code.co_filename != "<t>":
            return None
        if event == "line":
            events.append((frame.f_code.co_name, frame.f_lineno))
        return tracer

    sys.settrace(tracer)
    try:
        exec(code, {})
    finally:
        sys.settrace(None)
    return events


code = compile(SRC, "<t>", "exec")
data = CodeData.from_code(code)
same = data.to_code()
normalized = data.normalize().to_code()
print("co_lnotab original  ", list(code.co_lnotab))
print("co_lnotab normalized", list(normalized.co_lnotab))
a, b, c = line_events(code), line_events(same), line_events(normalized)
print("original  ", a)
print("normalized", c)
assert a == b, "plain round trip keeps the events"
assert a == c, "normalize() changed the traced line events"
