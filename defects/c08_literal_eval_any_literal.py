# interpreter: any (/venv/bin/python 3.12, or pyenv 3.7-3.10); JSON part only
# A document that is valid for code_data.JSON_SCHEMA loads into a CodeData that is
# neither hashable nor immutable: the {"string": ...} form goes through literal_eval.
import json
from code_data import CodeData, JSON_SCHEMA

# the schema accepts any string in the {"string": ...} form of ConstantString
form = JSON_SCHEMA["definitions"]["ConstantString"]["anyOf"][1]
assert form["required"] == ["string"] and form["properties"] == {"string": {"type": "string"}}

doc = json.loads("""
{"blocks": [[{"name": "LOAD_CONST", "arg": {"constant": {"string": "[1, 2]"}}},
             {"name": "LOAD_NAME", "arg": {"name": {"string": "{}"}}},
             {"name": "RETURN_VALUE"}]],
 "filename": "f.py", "first_line_number": 1, "name": "<module>", "stacksize": 1}
""")
cd = CodeData.from_json_data(doc)
const = cd.blocks[0][0].arg.constant
name = cd.blocks[0][1].arg.name
print("constant:", repr(const), " name:", repr(name))

problems = []
try:
    hash(cd)
except Exception as e:  # NotImplementedError: Unsupported constant type: list
    problems.append("hash(cd) raises %r" % e)
try:
    {cd.blocks[0][1].arg}
except Exception as e:  # TypeError: unhashable type: 'dict'
    problems.append("Name arg unhashable: %r" % e)
before = repr(cd)
if isinstance(const, list):
    const.append(3)  # the "immutable" value changes under our feet
    if repr(cd) != before:
        problems.append("CodeData mutated in place through its constant")
print("\n".join(problems))
assert not problems, "JSON-loaded CodeData must be a hashable, immutable value"
