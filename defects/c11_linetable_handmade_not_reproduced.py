# Run with /root/.pyenv/versions/3.10.13/bin/python (co_linetable interpreter)
# Valid co_linetable variants are returned by from_code without error, but to_code()
# writes a different co_linetable (adjacent ranges merged, zero-width entries dropped).
import sys
from code_data import CodeData

assert sys.version_info[:2] == (3, 10)
m = compile("x=1", "f", "exec")
assert m.co_linetable == b"\x08\x00" and len(m.co_code) == 8
bad = []
for table in [
    b"\x04\x00\x04\x00",  # two ranges of 4 bytes, both on line 1
    b"\x00\x05\x08\xfb",  # zero-width entry: +5 lines, then 8 bytes with -5 lines
]:
    c = m.replace(co_linetable=table)
    ns = {}
    exec(c, ns)  # CPython runs it
    assert ns["x"] == 1
    # CPython's own view: every instruction is on line 1, as in the original
    assert {line for _, _, line in c.co_lines()} == {1}
    back = CodeData.from_code(c).to_code()  # no exception
    header_same = all(
        getattr(back, a) == getattr(c, a)
        for a in ("co_flags", "co_argcount", "co_code", "co_consts", "co_names", "co_firstlineno")
    )
    print(table, "->", back.co_linetable, list(c.co_lines()), "->", list(back.co_lines()))
    assert header_same
    if back.co_linetable != table:
        bad.append(table)
assert not bad, "co_linetable not reproduced for %r" % bad
