# to_code must not modify its argument: tuples nested in a frozenset constant
import sys
from code_data import CodeData
src = "x in {('alpha_%d' % 0, 1)}\n"
src = "def f(x):\n    return x in {('alpha', 1), ('beta', 2)}\n"
code = compile(src, "f", "exec")
import json
cd = CodeData.from_json_data(json.loads(json.dumps(CodeData.from_code(code).to_json_data())))
def tuples(cd):
    out = []
    for c in cd.all_code_data():
        for b in c.blocks:
            for i in b:
                v = getattr(i.arg, "constant", None)
                if isinstance(v, frozenset):
                    for t in v:
                        out.append((t, [id(x) for x in t]))
    return out
before = tuples(cd)
cd.to_code()
after = tuples(cd)
changed = [(t, a, b) for (t, a), (_, b) in zip(before, after) if a != b]
assert not changed, f"to_code replaced items of tuples owned by its argument: {changed}"
print("OK")
