# Run on 3.7.16 / 3.8.18 / 3.9.18: PYTHONPATH=/tmp/shim:/tmp/hunt3_C10 /root/.pyenv/versions/3.8.18/bin/python find2.py
# Line deltas are applied with C int arithmetic by CPython; the decoder uses unbounded ints.
import ast, ctypes, sys
from code_data import CodeData
from code_data._line_mapping import to_line_mapping, from_line_mapping

INT_MAX = 2**31 - 1
tree = ast.parse("x\nraise E\n")
for stmt, line in zip(tree.body, [INT_MAX, -INT_MAX - 1]):  # both are legal C ints for ast linenos
    for node in ast.walk(stmt):
        if hasattr(node, "lineno"):
            node.lineno = node.end_lineno = line
code = compile(tree, "x", "exec")
print("co_firstlineno", code.co_firstlineno, "co_lnotab", code.co_lnotab)
assert code.co_lnotab == b"\x04\x01"  # the assembler's delta wrapped to +1

addr2line = ctypes.pythonapi.PyCode_Addr2Line
addr2line.argtypes = [ctypes.py_object, ctypes.c_int]
cpython = [addr2line(code, off) for off in range(0, len(code.co_code), 2)]
try:  # the line the interpreter reports while running the code
    exec(code, {"x": 0, "E": KeyError})
except KeyError:
    tb_line = sys.exc_info()[2].tb_next.tb_lineno
mapping = to_line_mapping(code)
assert from_line_mapping(mapping) == code.co_lnotab  # bytes are reproduced
library = [mapping.offset_to_line[off] + code.co_firstlineno for off in range(0, len(code.co_code), 2)]
data_lines = [i.line_number for b in CodeData.from_code(code).blocks for i in b]
print("CPython  ", cpython, "traceback line", tb_line)
print("library  ", library)
print("from_code", data_lines)
assert library == cpython, "decoded line %r, CPython assigns %r" % (library[2], cpython[2])
