"""
Thorough tier = the quick rules (already run) plus
  (a) re-extraction of the CPython contract tables from the stdlib source trees and comparison with the committed copies,
  (b) the checker self-validation corpus for this property (selftest/mutants.py): behaviour-breaking edits of the current tree that
      must fire, behaviour-preserving rewrites that must stay silent - scratch copies in a mkdtemp dir, removed afterwards.
  (c) four whole-tree behaviour-preserving transforms of /repo that must leave the check silent,
  (d) the independently written seeded changes for this property (seeded/), (e) the same after re-formatting the changed tree.
(a)-(e) are evidence about the checker, never about /repo: they cannot turn exit 0 into exit 1.
"""
from __future__ import annotations

import os
import subprocess
import sys

from .model import AnalysisError

VERIF = os.path.dirname(os.path.dirname(os.path.abspath(__file__)))


def run(an, rep, mod):
    # (a) reference drift
    drift = {}
    for script in ("reference/extract.py", "reference/stdlib_names.py"):
        r = subprocess.run([sys.executable, os.path.join(VERIF, script), "--check"], capture_output=True, text=True, timeout=300)
        drift[script] = (r.returncode, r.stdout.strip().splitlines()[-1] if r.stdout.strip() else r.stderr.strip()[-200:])
        if r.returncode == 2:
            raise AnalysisError(f"reference tables drifted from the stdlib sources ({script}): {drift[script][1]}")
    rep.extra["reference_check"] = {k: v[1] for k, v in drift.items()}
    # (b) self-validation corpus
    sys.path.insert(0, VERIF)
    from selftest import run as st
    out, n_ok, n_fail, n_skip = st.main(repo=an.prog.repo, only=[rep.pid], quiet=True)
    from selftest.mutants import M
    rep.extra["selftest"] = {
        "edits": len(out), "as_expected": n_ok, "not_as_expected": n_fail, "skipped": n_skip,
        "must_fire": sum(1 for i, s, d in out if M[i]["kind"] == "fire"),
        "must_stay_silent": sum(1 for i, s, d in out if M[i]["kind"] == "silent"),
        "failures": [{"edit": M[i]["old"][:80], "detail": d[:300]} for i, s, d in out if s == "FAIL"],
        "skipped_edits": [M[i]["old"][:80] for i, s, d in out if s == "SKIPPED"],
    }
    # (c) whole-tree behaviour-preserving transforms (re-emission by ast.unparse, black at two widths, renaming of locals): this check must stay silent
    import shutil
    import tempfile
    from selftest import transforms as tr
    tres = {}
    for name in ("unparse", "black120", "black60", "rename"):
        d_ = tempfile.mkdtemp(prefix="verif_tr_")
        try:
            shutil.copytree(os.path.join(an.prog.repo, "code_data"), os.path.join(d_, "repo", "code_data"), ignore=shutil.ignore_patterns("__pycache__", "_test_minimized"))
            tr.transform(name, os.path.join(d_, "repo"))
            env = dict(os.environ, VERIF_EVIDENCE_DIR=os.path.join(d_, "ev"))
            r = subprocess.run([sys.executable, os.path.join(VERIF, "check"), rep.pid, "--repo", os.path.join(d_, "repo")], capture_output=True, text=True, env=env, timeout=900)
            tres[name] = r.returncode
            if r.returncode != 0:
                print(f"SELFTEST-WEAKNESS property={rep.pid}: the behaviour-preserving transform '{name}' makes the check exit {r.returncode}")
        finally:
            shutil.rmtree(d_, ignore_errors=True)
    rep.extra["selftest"]["behaviour_preserving_transforms_exit_codes"] = tres
    # (d) the independently written seeded changes that target this property (seeded/<id>/patch.diff): each must make this check exit 1
    import importlib.util
    spec = importlib.util.spec_from_file_location("seeded_tool", os.path.join(VERIF, "tools", "seeded.py"))
    st_mod = importlib.util.module_from_spec(spec)
    spec.loader.exec_module(st_mod)
    sres = {}
    sdir = os.path.join(VERIF, "seeded")
    ids = sorted(x for x in os.listdir(sdir) if x.startswith(rep.pid + "-") and os.path.exists(os.path.join(sdir, x, "meta.json")))
    import concurrent.futures as cf
    with cf.ThreadPoolExecutor(max_workers=8) as ex:
        for sid, meta, res, err in ex.map(st_mod.run_one, [(i_, False, an.prog.repo) for i_ in ids]):
            if res is None:
                sres[sid] = "patch does not apply to the current tree"
            else:
                rc = res[rep.pid][0]
                sres[sid] = {1: "caught", 0: "missed", 2: "not decided (analysis error)"}.get(rc, str(rc))
    rep.extra["selftest"]["seeded_changes"] = sres
    # (e) the same seeded changes after re-formatting the changed tree (ast.unparse; every local renamed): the verdict may not depend on spelling
    for tname in ("unparse", "rename"):
        tres2 = {}
        with cf.ThreadPoolExecutor(max_workers=8) as ex:
            for sid, meta, res, err in ex.map(st_mod.run_one, [(i_, False, an.prog.repo, [tname]) for i_ in ids]):
                if res is None:
                    continue
                rc = res[rep.pid][0]
                tres2[sid] = {1: "caught", 0: "missed", 2: "not decided (analysis error)"}.get(rc, str(rc))
                if tres2[sid] != sres.get(sid):
                    print(f"SELFTEST-WEAKNESS property={rep.pid}: seeded change {sid} is '{sres.get(sid)}' as written but '{tres2[sid]}' after the transform '{tname}'")
        rep.extra["selftest"][f"seeded_changes_after_{tname}"] = tres2
    print(f"thorough: seeded changes for {rep.pid}: " + ", ".join(f"{k}={v}" for k, v in sres.items()))
    for i, s, d in out:
        if s == "FAIL":
            print(f"SELFTEST-WEAKNESS property={rep.pid}: edit #{i} ({M[i]['kind']}) not handled as expected: {d[:200]}")
    print(f"thorough: reference tables in sync; self-validation corpus {n_ok}/{len(out)} as expected ({n_skip} skipped)")
