# Run on 3.10.13: PYTHONPATH=/tmp/shim:/tmp/hunt3_C10 /root/.pyenv/versions/3.10.13/bin/python find1.py
# Two adjacent no-line ranges emitted by CPython 3.10's assembler are merged into one on re-encoding.
import ast, types
from code_data import CodeData
from code_data._line_mapping import to_line_mapping, from_line_mapping

tree = ast.parse("def f(a):\n    return [i for i in a]\n")
for node in ast.walk(tree):  # a tool-generated tree whose nodes carry negative line numbers
    if hasattr(node, "lineno"):
        node.lineno = node.end_lineno = -node.lineno
module = compile(tree, "x", "exec")  # accepted by the real compiler
f = next(k for k in module.co_consts if isinstance(k, types.CodeType))
comp = next(k for k in f.co_consts if isinstance(k, types.CodeType))

print("co_linetable", comp.co_linetable, "co_lines", list(comp.co_lines()))
assert comp.co_linetable == b"\x0e\x80\x02\x80"  # (14, no line), (2, no line)
mapping = to_line_mapping(comp)
# the decoded lines agree with CPython (every instruction has no line) ...
assert all(line is None for line in mapping.offset_to_line.values())
# ... but the table is not reproduced
again = from_line_mapping(mapping)
print("re-encoded  ", again)
whole = CodeData.from_code(comp).to_code().co_linetable
print("to_code     ", whole)
assert again == comp.co_linetable, "codec: %r != %r" % (again, comp.co_linetable)
assert whole == comp.co_linetable
