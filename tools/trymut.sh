#!/bin/bash
# usage: trymut.sh <pid> <file-relative-to-repo> <python-regex-old> <new>   : scratch copy, edit, run check, remove
set -e
PID=$1; F=$2; OLD=$3; NEW=$4
D=$(mktemp -d /tmp/mut.XXXXXX)
mkdir -p $D/repo && cp -r /repo/code_data $D/repo/
python3 - "$D/repo/$F" "$OLD" "$NEW" <<'PY'
import sys,re
p,old,new=sys.argv[1:4]
s=open(p).read()
n=s.replace(old,new,1)
if n==s: print("MUTATION DID NOT APPLY"); sys.exit(3)
open(p,'w').write(n)
PY
python3 -c "import ast,sys; ast.parse(open('$D/repo/$F').read())"
for p in $(echo $PID | tr , ' '); do /venv/bin/python /verif/check $p --repo $D/repo | grep -E "^(FINDING|VIOLATION|ANALYSIS|KNOWN|    at|C[0-9]+:)" | cut -c1-260 || true; done
rm -rf $D
