"""Prepare the scratch worktrees for one round of seeded changes (run by hand; nothing here is part of a check).

For each property Cxx: a detached worktree of /repo's HEAD at /tmp/seed_Cxx holding ONLY the library plus PROPERTY.txt (the property's text),
AVOID.txt (one line per change already stored under /verif/seeded for that property, and the known weak spots of the unchanged library) and
PROMPT.txt (the task).  Nothing from /verif is copied.  usage: prep_round.py <round number> [Cxx ...]
"""
import json
import os
import shutil
import subprocess
import sys

V = os.path.dirname(os.path.dirname(os.path.abspath(__file__)))
WEAK = open(os.path.join(V, "tools", "weak_spots.txt")).read()
PROMPT = open(os.path.join(V, "tools", "seed_prompt.txt")).read()


def main():
    rnd = int(sys.argv[1])
    props = {}
    for line in open(os.path.join(V, "properties.jsonl")):
        d = json.loads(line)
        props[d["id"]] = d
    want = sys.argv[2:] or sorted(props)
    for pid in want:
        wt = f"/tmp/seed_{pid}"
        if os.path.isdir(wt):
            subprocess.run(["git", "-C", "/repo", "worktree", "remove", "--force", wt], check=False)
        subprocess.run(["git", "-C", "/repo", "worktree", "prune"], check=True)
        subprocess.run(["git", "-C", "/repo", "worktree", "add", "--detach", wt, "HEAD"], check=True, stdout=subprocess.DEVNULL, stderr=subprocess.DEVNULL)
        os.makedirs(f"{wt}/out", exist_ok=True)
        d = props[pid]
        with open(f"{wt}/PROPERTY.txt", "w") as f:
            f.write(f"{d.get('title', '')}\n\n{d.get('statement') or d.get('text')}\n")
        used = []
        sd = os.path.join(V, "seeded")
        for sid in sorted(os.listdir(sd), key=lambda s: (s.split("-")[0], int(s.split("-")[1]))):
            if sid.split("-")[0] != pid:
                continue
            note = os.path.join(sd, sid, "note.md")
            if os.path.exists(note):
                txt = " ".join(x.strip() for x in open(note).read().splitlines()[:4] if x.strip())
                used.append("- " + txt[:330])
        with open(f"{wt}/AVOID.txt", "w") as f:
            f.write("Ideas already used for this property (your three changes must differ from ALL of these in kind and location):\n\n" + "\n".join(used) + "\n\n" + WEAK)
        with open(f"{wt}/PROMPT.txt", "w") as f:
            f.write(PROMPT.replace("{WT}", wt).replace("{PID}", pid))
        print(pid, "ready:", wt, f"({len(used)} used ideas)")


if __name__ == "__main__":
    main()
