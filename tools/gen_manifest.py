#!/usr/bin/env python3
"""Regenerates MANIFEST.json from the table below (keeps it schema-valid at all times)."""
import json, os
HERE = os.path.dirname(os.path.dirname(os.path.abspath(__file__)))
BASELINE = ("cd /repo && /venv/bin/python -m pytest -ra -q -p no:cacheprovider --timeout=900 "
            "--continue-on-collection-errors --junitxml=/tmp/baseline_off.junit.xml")
NOTE = ("Trusted base: CPython's ast parser, the analyser in /verif/sa, the CPython contract tables in /verif/reference. "
        "Static analysis only: nothing in /repo is imported or executed, no solver is called.")
CLAIMS = {
 "C12": dict(
  text="Effect/alias analysis of the five API closures x 4 interpreter versions: every mutation site is enumerated with the abstract objects it may touch; none may alias an API argument (incl. elements of shallow copies), module-level or class-level state; returned JSON containers are all allocated during the call. Decides the no-input-mutation / no-shared-state clauses for every input (they are shape properties of the code); repeatability follows from them and is not executed.",
  technique="context-sensitive points-to / effect analysis (abstract interpretation over ast)", ref="5 C12"),
}
NA = {}
props = [json.loads(l) for l in open(os.path.join(HERE, "properties.jsonl"))]
checks, na = [], []
for p in props:
    pid = p["id"]
    if pid in CLAIMS:
        c = CLAIMS[pid]
        checks.append({
            "property_id": pid,
            "quick_cmd": f"/venv/bin/python /verif/check {pid} --tier quick",
            "thorough_cmd": f"/venv/bin/python /verif/check {pid} --tier thorough",
            "evidence_file": f"/verif/evidence/{pid}.json",
            "replay_cmd_template": f"/venv/bin/python /verif/check {pid} --replay {{path}}",
            "engine": "sa",
            "level_claimed": {"category": "other", "text": c["text"], "design_ref": "DESIGN.md section " + c["ref"]},
            "level_note": NOTE + (" " + c["note"] if c.get("note") else ""),
            "technique": c["technique"],
        })
    else:
        na.append({"property_id": pid, "reason": NA.get(pid, "check not built yet (build in progress; DESIGN.md section 5 has the plan)")})
m = {
 "version": 1,
 "setup_cmd": "true",
 "hooks": {"guard": "CODE_DATA_VERIF", "enable": "none: static analysis reads /repo's working tree; no instrumentation was added to /repo",
           "baseline_off_cmd": BASELINE, "source_commits": [], "add_only": True},
 "engines": [{"name": "sa", "path": "/verif/sa", "serves_properties": sorted(CLAIMS),
              "kind_free_text": "repository-specific static analyser: ast source model, type graph, context-sensitive abstract interpreter (points-to, provenance, effects), structured path walker, finite-domain expression evaluator"}],
 "checks": checks,
 "not_applicable": na,
 "notes": "Every check is static analysis of /repo's current sources (see DESIGN.md). exit 0 held / only KNOWN-FINDING lines; exit 1 with VIOLATION line; exit 2 ANALYSIS-ERROR (anchor vanished or idiom not recognised).",
}
json.dump(m, open(os.path.join(HERE, "MANIFEST.json"), "w"), indent=1)
print(len(checks), "checks,", len(na), "not claimed")
