#!/usr/bin/env python3
"""Regenerates MANIFEST.json from the table below (keeps it schema-valid at all times)."""
import json, os
HERE = os.path.dirname(os.path.dirname(os.path.abspath(__file__)))
BASELINE = ("cd /repo && /venv/bin/python -m pytest -ra -q -p no:cacheprovider --timeout=900 "
            "--continue-on-collection-errors --junitxml=/tmp/baseline_off.junit.xml")
NOTE = ("Trusted base: CPython's ast parser, the analyser in /verif/sa, the CPython contract tables in /verif/reference. "
        "Static analysis only: nothing in /repo is imported or executed, no solver is called.")
CLAIMS = {
 "C12": dict(
  text="Effect/alias analysis of the five API closures x 4 interpreter versions: every mutation site is enumerated with the abstract objects it may touch; none may alias an API argument (incl. elements of shallow copies), module-level or class-level state; returned JSON containers are all allocated during the call. Decides the no-input-mutation / no-shared-state clauses for every input (they are shape properties of the code); repeatability follows from them and is not executed. The copy protocol (__copy__) and vars()/__dict__ aliasing are modelled; the equality behind 'equal results' is reflexive (constant key identifies NaNs). Process-wide settings touched by an API call are restored in a finally; object.__setattr__ is modelled as a field store.",
  technique="context-sensitive points-to / effect analysis (abstract interpretation over ast)", ref="5 C12"),
}
CLAIMS.update({
 "C05": dict(text="Decides three necessary structural clauses for every input: normalize is the identity on every public field (each arm keyword is a private field or f=normalize(x.f)); the encoder reads every public field outside error messages in all four interpreter versions; the docstring-slot guards agree with CPython's __doc__ rule on the full finite guard domain. Execution equivalence of the two code objects is not decided. Also shared with other properties: flags written back exactly when their datum is set, operand widths, first-unit line keys.",
   technique="type-graph + ast rule checking; finite-domain evaluation of guards; attribute-read sets from abstract interpretation", ref="5 C05"),
 "C06": dict(text="Decides that normalize is a projection onto 'all private fields at their declared default' (every private field reachable in the type graph reset, every field reaching one recursed into, tuples element-wise), hence idempotent and independent of its input's artefacts, and that index assignment without override depends on first use only. Canonicity across table permutations additionally needs the decoder to be right on the variant (C02). A private field reset only under a guard is reported; JSON codec pairs and cell/free operand arithmetic are shared in.",
   technique="type-graph exhaustiveness check of the normalize dispatch (ast)", ref="5 C06"),
 "C08": dict(text="Decides the structural conditions of being an immutable hashable value: frozen data classes with deeply immutable field types; constructors in decode / JSON-load / normalize closures store only immutable shapes; hand-written __eq__ and __hash__ use the same key and cover all fields; constant key covers every leaf type, type-/sign-/NaN-exact and recursive. The relational laws follow from equality-by-key and are not executed. A nested code object is keyed by its whole value. A hand-written __eq__ is False for other classes.",
   technique="type graph + abstract interpretation of constructor arguments + key-expression comparison (ast)", ref="5 C08"),
 "C09": dict(text="Decides that the decoder's first-use rank depends on discovery state and mirrors the encoder's next-index rule, that an override is reported iff rank != index (finite-domain evaluation), that seeds agree on both sides, and that additional args are exactly the never-met indices of all four tables. The 'or removing the override would change the re-encoding' disjunct is not decided. The override expression is evaluated with pinned duplicates varied; the parameter seed may be spelled as a sum of counts. The encoder registers every stored entry for look-up by key; parameters are ranked in layout order; the pinned set only holds computed duplicates; unreferenced entries are not filtered.",
   technique="ast pattern + def/use of object state; finite-domain evaluation; provenance from abstract interpretation", ref="5 C09"),
 "C14": dict(text="Decides traversal exhaustiveness: for every type-graph route from CodeData to a nested CodeData, __iter__ yields the object at its end under a CodeData guard; all_code_data yields self first and recurses over iter(self); nested code constants are decoded by CodeData.from_code. Each nested code object is yielded once however many instructions load it; key-less orderings over code objects are reported; the check declines (exit 2) when the traversal goes through a helper.",
   technique="type-graph route enumeration vs. abstract interpretation of the generator", ref="5 C14"),
})
CLAIMS.update({
 "C01": dict(text="Decides necessary structural clauses of losslessness per interpreter version: every code() slot's co_* attribute is read; role conservation (composing encoder provenance of each CodeType slot with decoder provenance of the fields it uses yields co_s and no foreign table); every data-class field is produced input-dependently and consumed by the encoder; every flag a code object can legitimately carry has a representation (known findings: barry_as_FLUFL, the __future__ flags copied by compile(flags=), ITERABLE_COROUTINE); the line-table entries of every code unit reach the data (known finding: one line per instruction); inverse-pair constants. Byte equality for any particular program is not decided. Also decided: the line mapping built by the encoder has a key for every code unit when the table builder sizes the table from the last key; field-by-field rebuilds of data classes omit no field; identity tests never compare numbers/strings; decoder and encoder pre-assign the same table slots; widths of multi-unit jumps are recorded.",
   technique="inter-procedural provenance (context-sensitive abstract interpretation), composed across decoder and encoder; CPython contract tables", ref="5 C01"),
 "C02": dict(text="Decides the facts a mirrored decoder/encoder error would corrupt while the round trip stays green: category->table binding against each stdlib's opcode/dis tables, category exhaustiveness, jump scale and offset arithmetic by finite evaluation per version, cell/free split, line key = first code unit, accumulator reset. Correctness of each decoded value for a given program is not decided. Also: every EXTENDED_ARG prefix contributes to the operand (def-use over the parser loop); the decoded line is a running sum of table deltas. The NoArg class is exactly the opcodes below HAVE_ARGUMENT per version; local memos are keyed by every loop-varying argument; every line that is not None is shifted.",
   technique="provenance by abstract interpretation + finite-domain evaluation of extracted expressions against CPython tables parsed from stdlib sources", ref="5 C02"),
 "C11": dict(text="Decides per interpreter version: residual flag bits are tested on every returning path; a typestate walk for each of the 18 flag names ends consumed or rejected, never surviving or dropped untested; consumed flags are re-produced; every header field is read; line-mapping leftovers and unusable argument counts are rejected. Numeric values of the flag enumeration (taken from the running interpreter) are not decided. Also: flag write-back may not depend on the kind of code object when the decoder consumes the flag unconditionally; pseudo-members of the flag enumeration (registered by calling the IntFlag class on a run-time word) cannot be accepted. The flag decoder receives the whole flag word; names of *args / **kwargs are tested with `is None`; unreferenced table entries are all kept.",
   technique="path-sensitive typestate walk over the structured CFG, guided by points-to facts; stdlib flag tables parsed statically", ref="5 C11"),
})
CLAIMS.update({
 "C04": dict(text="Decides the co_varnames layout contract on both sides (symbolic evaluation of the decoder's slicing with linear forms over the argument counts on the four VARARGS x VARKEYWORDS paths; concatenation order of the encoder's prefix and seeds), the signature order and kinds of Args.parameters, count/flag derivation, the docstring rule and the function-kind inference by finite evaluation, and len(args). A round trip cannot see a layout error shared by both sides; comparison with inspect on real functions is not executed. The function kind is evaluated as a block over each flag subset the compiler can produce; negative slice bounds are understood. The argument decoder is called unconditionally; data classes keep the field values they are given; no substring membership tests on names.",
   technique="symbolic evaluation with linear forms + concatenation-order extraction + finite-domain evaluation (ast)", ref="5 C04"),
 "C07": dict(text="Decides agreement of encoder, decoder and JSON_SCHEMA: tag key sets, string enumerations, operand-class unions and discriminators; per field, every emittable JSON shape (armed where decoder provenance shows arbitrary values) is accepted by the schema node and converted back; strictness guards dominate raw numeric returns; only dicts/lists are built; default hiding is injective; decimal conversions of unbounded ints are reported (two known findings); every string a code object carries, names included, survives in tagged form. Behaviour of JSON libraries and to_code() identity are not decided. Also: library codecs of a tag form an inverse pair; hidden defaults have no compare=False fields; encoded values are never ordered without a key.",
   technique="three-way structural comparison (ast of encoder/decoder, schema literal, type graph) + path-sensitive guard walk + provenance from abstract interpretation", ref="5 C07"),
 "C13": dict(text="Decides that block boundaries are a function of {0} U {decoded jump targets} only: initial value, sole writer, executed for every Jump operand; a block opens iff the instruction's first offset is in the sorted target list; unconditional append (no empty block, order-preserving partition); jump targets rewritten through the same sorted list. Jump operands are reassembled from all their prefixes (shared prefix-carry rule). Index look-ups by bisect over a part of the target list are declined (exit 2); local memos are keyed by every loop-varying argument.",
   technique="ast rule checking over the decoder's two loops with points-to facts", ref="5 C13"),
})
CLAIMS.update({
 "C03": dict(text="Decides guards, keys and width constants the encoder cannot be right without on hand-built data: gap guard before table compaction and keyed collision check (finite evaluation on model index maps / values), constants table keyed by Constant.__eq__'s key function, exact constant key, operand-width thresholds and unit emission reassembling under the decoder's shift, no Optional line into arithmetic (two known findings on the lnotab path); operands are final before the layout; table keys identify the entry; no guard is an assert statement; NaN sign (known finding), relaxation-loop shape and agreement of all size computations. Termination/fixed-point correctness of relaxation and the synthesised line table are not decided. Also: the encoder keys an instruction's line at its first code unit; the None pin at constants[0] holds for every kind of function. The table's index map is written by the checked setter only; lines are never tested by truthiness; flags are written back as described.",
   technique="finite-domain evaluation of extracted guards / threshold tables + points-to facts + ast shape rules", ref="5 C03"),
 "C10": dict(text="Decides the format constants of the line-table codec per format (merge thresholds = split emissions = CPython's limits over the whole byte domain; split-loop coherence; -128<->None sentinel iff linetable; (unsigned, signed) byte pairing). Arithmetic over integer sequences (cursor logic of collapse_items on merged entries, loop bounds computed from sums, zero-width entries) is explicitly NOT decided by static analysis here. Added: the mapping builder's running line is moved by adding deltas only (a necessary condition of the decoded-line clause); stage functions are located by their place in the drivers' call chains. Also decided (necessary conditions of the decoded-line and byte-identity clauses): deltas are taken against the last real line, the no-line marker survives continuation entries, shortcuts around the split loops stay within one entry, the lnotab walk cannot end while entries remain, lines are never tested by truthiness.",
   technique="finite-domain evaluation of extracted predicates over the format's value domain", ref="5 C10 and 8"),
 "C15": dict(text="Decides that nothing on the JSON / normalize paths can depend on the interpreter: closures identical under every version and free of sys/dis/opcode/platform/ctypes and derived constants; no version-conditional module-level definition; no version-dependent builtin applied to data (repr of str fixed; decimal int<->text is a known finding); every import resolves in the stdlib sources of 3.7..3.12 (parsed statically). Cross-library byte identity is not decided. Also: regular-expression syntax, isinstance against typing.Union aliases and run-time subscripts of builtin containers whose evaluation differs across 3.7..3.12.",
   technique="call/import closure scan with taint of version-derived constants; stdlib source tables", ref="5 C15"),
 "C16": dict(text="Decides on the console entry point: validation and dispatch range over the declared source options with the same null test; each source variable is used in the role of its option; printed value, JSON value and re-encoded value are one variable defined by from_code / normalize(self); flag polarity by finite evaluation of guards. Exit status and rendered text are not decided. Also: the parser takes argv literally (no @file expansion); the --json document is loadable and printable as the command prints it (shared JSON codec rules). Also: parse_args (nothing on the command line is ignored), -e evaluated with the builtins, the -c text compiled as given.",
   technique="ast rule checking of the CLI entry point with points-to facts + guard evaluation", ref="5 C16"),
})
NA = {}
props = [json.loads(l) for l in open(os.path.join(HERE, "properties.jsonl"))]
checks, na = [], []
for p in props:
    pid = p["id"]
    if pid in CLAIMS:
        c = CLAIMS[pid]
        checks.append({
            "property_id": pid,
            "quick_cmd": f"/venv/bin/python /verif/check {pid} --tier quick",
            "thorough_cmd": f"/venv/bin/python /verif/check {pid} --tier thorough",
            "evidence_file": f"/verif/evidence/{pid}.json",
            "replay_cmd_template": f"/venv/bin/python /verif/check {pid} --replay {{path}}",
            "engine": "sa",
            "level_claimed": {"category": "other", "text": c["text"], "design_ref": "DESIGN.md section " + c["ref"]},
            "level_note": NOTE + (" " + c["note"] if c.get("note") else ""),
            "technique": c["technique"],
        })
    else:
        na.append({"property_id": pid, "reason": NA.get(pid, "check not built yet (build in progress; DESIGN.md section 5 has the plan)")})
m = {
 "version": 1,
 "setup_cmd": "true",
 "hooks": {"guard": "CODE_DATA_VERIF", "enable": "none: static analysis reads /repo's working tree; no instrumentation was added to /repo",
           "baseline_off_cmd": BASELINE, "source_commits": [], "add_only": True},
 "engines": [{"name": "sa", "path": "/verif/sa", "serves_properties": sorted(CLAIMS),
              "kind_free_text": "repository-specific static analyser: ast source model, type graph, context-sensitive abstract interpreter (points-to, provenance, effects), structured path walker, finite-domain expression evaluator"}],
 "checks": checks,
 "not_applicable": na,
 "notes": "Every check is static analysis of /repo's current sources (see DESIGN.md). exit 0 held / only KNOWN-FINDING lines; exit 1 with VIOLATION line; exit 2 ANALYSIS-ERROR (anchor vanished or idiom not recognised).",
}
json.dump(m, open(os.path.join(HERE, "MANIFEST.json"), "w"), indent=1)
print(len(checks), "checks,", len(na), "not claimed")
