#!/venv/bin/python
"""Runs the self-validation corpus (selftest/mutants.py) against the current /repo tree, 16 workers."""
import concurrent.futures as cf
import json
import os
import shutil
import subprocess
import sys
import tempfile

HERE = os.path.dirname(os.path.abspath(__file__))
VERIF = os.path.dirname(HERE)
sys.path.insert(0, VERIF)


def run_one(args):
    i, m, repo = args
    d = tempfile.mkdtemp(prefix="verif_mut_")
    try:
        shutil.copytree(os.path.join(repo, "code_data"), os.path.join(d, "repo", "code_data"),
                        ignore=shutil.ignore_patterns("__pycache__", "_test_minimized"))
        p = os.path.join(d, "repo", m["file"])
        s = open(p).read()
        if m["old"] not in s:
            return i, "SKIPPED", "edit no longer applies"
        s = s.replace(m["old"], m["new"], 1)
        for o2, n2 in m.get("more", []):
            if o2 not in s:
                return i, "SKIPPED", "second edit no longer applies"
            s = s.replace(o2, n2, 1)
        open(p, "w").write(s)
        try:
            compile(open(p).read(), p, "exec")
        except SyntaxError as e:
            return i, "SKIPPED", f"edit does not parse: {e}"
        pids = m["pid"] if isinstance(m["pid"], list) else [m["pid"]]
        res = []
        for pid in pids:
            env = dict(os.environ, VERIF_EVIDENCE_DIR=os.path.join(d, "ev"))
            r = subprocess.run([sys.executable, os.path.join(VERIF, "check"), pid, "--repo", os.path.join(d, "repo")],
                               capture_output=True, text=True, env=env, timeout=600)
            res.append((pid, r.returncode, [l for l in r.stdout.splitlines() if l.startswith(("FINDING", "ANALYSIS-ERROR"))]))
        if m["kind"] == "fire":
            ok = all(rc == 1 for _, rc, _ in res)
        else:
            ok = all(rc == 0 for _, rc, _ in res)
        return i, "OK" if ok else "FAIL", "; ".join(f"{pid} exit={rc} {(' | '.join(x[:140] for x in lines[:2]))}" for pid, rc, lines in res)
    finally:
        shutil.rmtree(d, ignore_errors=True)


def main(repo="/repo", only=None, quiet=False):
    from selftest.mutants import M
    items = [(i, m, repo) for i, m in enumerate(M) if only is None or (m["pid"] if isinstance(m["pid"], str) else m["pid"][0]) in only
             or (isinstance(m["pid"], list) and set(m["pid"]) & set(only))]
    out = []
    with cf.ThreadPoolExecutor(max_workers=16) as ex:
        for i, status, detail in ex.map(run_one, items):
            out.append((i, status, detail))
    n_ok = sum(1 for _, s, _ in out if s == "OK")
    n_fail = sum(1 for _, s, _ in out if s == "FAIL")
    n_skip = sum(1 for _, s, _ in out if s == "SKIPPED")
    if not quiet:
        for i, s, dt in sorted(out):
            m = M[i]
            if s != "OK":
                print(f"[{s}] #{i} {m['kind']} {m['pid']} {m['file']}: {m['old'][:60]!r} -> {m['new'][:40]!r}\n      {dt}")
        print(f"selftest: {len(out)} edits, {n_ok} as expected, {n_fail} NOT as expected, {n_skip} skipped")
    return out, n_ok, n_fail, n_skip


if __name__ == "__main__":
    only = sys.argv[1].split(",") if len(sys.argv) > 1 else None
    _, _, n_fail, _ = main(only=only)
    sys.exit(1 if n_fail else 0)
