"""C08 - immutable value, hash/eq contract, type-exact equality (DESIGN 5, R08.1-R08.4)."""
from __future__ import annotations

import ast
from typing import List, Optional, Set

from sa.analysis import VERSIONS, Analysis, fmt_atom, vname
from sa.model import AnalysisError, loc, norm_src

from .common import called_names, data_classes, isinstance_arms, returns_of

MUTABLE_KINDS = {"list", "set", "dict", "defaultdict", "gen", "copy"}


def run(an: Analysis, rep):
    rep.explanation = (
        "Decides the structural conditions without which CodeData cannot be an immutable, hashable value with a coherent "
        "equality: every data class reachable from CodeData is frozen with eq enabled and only deeply immutable field types; "
        "every constructor call in the decode / JSON-load / normalize closures stores only immutable shapes (no list, dict, set, "
        "generator, or un-converted JSON array) into any field; a class with a hand-written __eq__ hashes through the same key "
        "expressions and compares every field; the constant key covers every constant leaf type, type-tagged for bool/int/float/"
        "complex, with sign-of-zero and NaN canonicalisation per real component, recursive through tuple/frozenset. "
        "The relational laws themselves follow from 'equality is equality of a key, hash is hash of that key' and are not executed."
    )
    rep.rule("R08.1", "data classes frozen, eq on, deeply immutable field types", 40)
    rep.rule("R08.2", "hand-written __eq__ and __hash__ are functions of the same key; every field takes part in equality", 2)
    rep.rule("R08.3", "constructors store only immutable shapes into data-class fields", 30)
    rep.rule("R08.4", "constant key: every leaf type, type-/sign-/NaN-exact, recursive", 9)
    from .common import purity
    # (Args.parameters / len(args) are part of the value's interface: a mapping handed out from a cache is shared mutable state of all equal values)
    rep.run(purity, an, rep, "R08.P", ["constant_eq", "from_json", "from_code", "normalize", "parameters", "args_len", "to_code"])
    from .common import assert_guard_rule as _agrx
    rep.run(_agrx, an, rep, "R08.G", ["constant_eq", "from_json", "from_code", "normalize"])
    for fn in (r081, r082, r083, r084):
        rep.run(fn, an, rep)
    from . import c03 as _c03k
    from .common import SharedRules as _SR8
    rep.run(_c03k.r033, an, _SR8(rep, "R08.T", "the encoder finds table entries by the key equality is defined by (shared with C03's R03.3): 'equal CodeData encode to identical code objects' - a table "
                                               "keyed by id() encodes a value and its own JSON round trip differently"), _c03k.table_class(an))
    from . import json_fold as _jf8
    rep.run(lambda a_, r_: _jf8.fold_rule(a_, r_, foreign_documents=True), an, _SR8(rep, "R08.J", "what from_json_data builds, folded over witness documents, is the data the documents describe - tuples and names, not the lists and tagged objects "
                                                   "of the document (shared with C07's R07.W): 'every JSON-loaded CodeData is hashable'"))
    from . import c12
    rep.run(c12.arg_mutation_rule, an, rep, "R08.M", ["normalize", "to_code", "to_json", "from_code"])


def r081(an, rep):
    tg = an.tg
    for ci in data_classes(an):
        w = loc(ci.module, ci.node)
        rep.add("R08.1", f"{ci.qual}::frozen", ci.is_dataclass and ci.dc_args.get("frozen") is True, w,
                "@dataclass(frozen=True)" if ci.dc_args.get("frozen") is True else f"class is not a frozen data class ({ci.dc_args}): attributes can be reassigned", nontrivial=False)
        eq_off = ci.dc_args.get("eq") is False
        rep.add("R08.1", f"{ci.qual}::eq", not eq_off, w, "eq disabled: identity comparison" if eq_off else "eq enabled", nontrivial=False)
        # (__new__ / __init__ written by hand: construction may hand out an instance that already exists - an interning table - and the generated
        # __init__ of a frozen class then writes the new field values into it through object.__setattr__: a value some other CodeData holds changes)
        bad = [m for m in ("__setattr__", "__delattr__", "__getattribute__", "__new__", "__init__") if an.interp("normalize")[0]._find_method(ci, m)]
        uh = ci.dc_args.get("unsafe_hash")
        hash_none = any(isinstance(st, ast.Assign) and any(isinstance(t, ast.Name) and t.id == "__hash__" for t in st.targets)
                        for st in ci.node.body)
        rep.add("R08.1", f"{ci.qual}::no attribute hooks", not bad and not hash_none, w,
                f"defines {bad or '__hash__ = ...'}: immutability / hashability of the value can be bypassed" if (bad or hash_none) else "no __setattr__/__delattr__/__new__/__init__ written by hand, __hash__ not disabled", nontrivial=False)
        for f in ci.fields:
            fl = getattr(f, "flags", {})
            excluded = [k for k in ("compare", "hash", "init") if k in fl and fl[k] is not True]
            if excluded:
                rep.add("R08.1", f"{ci.qual}.{f.name}::takes part in equality and hash", False, loc(ci.module, f.node),
                        f"field({', '.join(f'{k}={fl[k]!r}' for k in excluded)}): {f.name} is left out of the generated __eq__/__hash__/__init__, but the encoder emits it - two values "
                        f"that compare equal encode to different code objects (and as dict keys one silently replaces the other)")
            t = tg.field_type(f)
            mp = tg.mutable_parts(t)
            rep.add("R08.1", f"{ci.qual}.{f.name}::type", not mp, loc(ci.module, f.node),
                    f"declared type {tg.show(t)} contains mutable/unknown part(s) {[tg.show(x) for x in mp]}: hash() of the value can fail or change" if mp
                    else f"declared type {tg.show(t)} is deeply immutable")


def _mirror_keys(fn, other: str, identity=None) -> Optional[Set[str]]:
    """Key expressions k(self) such that __eq__ compares k(self) with k(other); comparisons by `is` / `is not` are keys too and are
    collected in `identity` (list of (key, Compare node)) when given."""
    keys: Set[str] = set()

    class Sub(ast.NodeTransformer):
        def visit_Name(self, n):
            return ast.copy_location(ast.Name("self", n.ctx), n) if n.id == other else n

    for n in ast.walk(fn.node):
        if isinstance(n, ast.Compare) and len(n.ops) == 1 and isinstance(n.ops[0], (ast.Eq, ast.NotEq, ast.Is, ast.IsNot)):
            l, r = n.left, n.comparators[0]
            if isinstance(l, ast.Name) and isinstance(r, ast.Name):
                continue  # `self is other`
            import copy
            r2 = Sub().visit(copy.deepcopy(r))
            l2 = Sub().visit(copy.deepcopy(l))
            k = None
            if ast.dump(l) == ast.dump(r2) and "self" in {x.id for x in ast.walk(l) if isinstance(x, ast.Name)}:
                k = norm_src(l)
            elif ast.dump(r) == ast.dump(l2) and other in {x.id for x in ast.walk(l) if isinstance(x, ast.Name)}:
                k = norm_src(r)
            if k is not None:
                keys.add(k)
                if identity is not None and isinstance(n.ops[0], (ast.Is, ast.IsNot)):
                    identity.append((k, n))
    return keys


def _self_fields(expr_src_list, ci) -> Set[str]:
    out = set()
    for s in expr_src_list:
        for n in ast.walk(ast.parse(s, mode="eval")):
            if isinstance(n, ast.Attribute) and isinstance(n.value, ast.Name) and n.value.id == "self" and ci.field(n.attr):
                out.add(n.attr)
    return out


def _hash_components(fn) -> Optional[Set[str]]:
    """Union over all return statements of the hashed components (locals inlined)."""
    from .encode_model import inline_locals
    rets = [r for r in returns_of(fn.node.body) if r.value is not None]
    if not rets:
        return None
    out: Set[str] = set()
    for r in rets:
        v = inline_locals(fn.node, r.value)
        if isinstance(v, ast.Call) and isinstance(v.func, ast.Name) and v.func.id == "hash" and len(v.args) == 1:
            v = v.args[0]
        else:
            return None
        if isinstance(v, ast.Tuple):
            out |= {norm_src(e) for e in v.elts}
        else:
            out.add(norm_src(v))
    return out


def r082(an, rep):
    n = 0
    for ci in data_classes(an):
        eqm = ci.methods.get("__eq__")
        hm = ci.methods.get("__hash__")
        if eqm is None and hm is None:
            continue
        n += 1
        w = loc(ci.module, (eqm or hm).node)
        if eqm is None:
            rep.add("R08.2", f"{ci.qual}::__hash__ without __eq__", True, w, "generated __eq__ compares all fields; custom hash checked below", nontrivial=False)
            eq_keys = {f"self.{f.name}" for f in ci.fields}
        else:
            params = eqm.params
            if len(params) != 2:
                raise AnalysisError(f"{eqm.qual}: unexpected signature")
            ident = []
            eq_keys = _mirror_keys(eqm, params[1], ident)
            for k, cmp_node in ident:
                rep.add("R08.2", f"{ci.qual}::__eq__ compares {k} by value", False, loc(ci.module, cmp_node),
                        f"`{norm_src(cmp_node)}` compares by identity: two equal values that are different objects (an int above 256 decoded twice, a value loaded from JSON, a copy) "
                        f"make the two {ci.name}s unequal although every field is equal - from_json_data(to_json_data(x)) != x, and a set of such values keeps both")
            if not eq_keys:
                raise AnalysisError(f"{eqm.qual}: cannot recognise the comparison idiom (expected k(self) ==/!= k(other) tests)")
            # a value of another class is never equal: its hash is not a function of this class's key
            other = params[1]
            guard = None
            for st in eqm.node.body:
                if isinstance(st, ast.If) and isinstance(st.test, ast.UnaryOp) and isinstance(st.test.op, ast.Not) and isinstance(st.test.operand, ast.Call) \
                        and isinstance(st.test.operand.func, ast.Name) and st.test.operand.func.id == "isinstance" and isinstance(st.test.operand.args[0], ast.Name) \
                        and st.test.operand.args[0].id == other:
                    guard = st
                # `if other.__class__ is not self.__class__:` / `if type(other) is not type(self):`
                if isinstance(st, ast.If) and isinstance(st.test, ast.Compare) and len(st.test.ops) == 1 and isinstance(st.test.ops[0], (ast.IsNot, ast.NotEq)):
                    sides = [st.test.left, st.test.comparators[0]]
                    if all((isinstance(x, ast.Attribute) and x.attr == "__class__") or (isinstance(x, ast.Call) and isinstance(x.func, ast.Name) and x.func.id == "type") for x in sides):
                        guard = st
            if guard is None:
                raise AnalysisError(f"{eqm.qual}: no `if not isinstance({other}, {ci.name}): return False` guard recognised")
            body = [b for b in guard.body if not (isinstance(b, ast.Expr) and isinstance(b.value, ast.Constant))]
            strict = len(body) == 1 and isinstance(body[0], ast.Return) and (
                (isinstance(body[0].value, ast.Constant) and body[0].value.value is False) or (isinstance(body[0].value, ast.Name) and body[0].value.id == "NotImplemented"))
            rep.add("R08.2", f"{ci.qual}::__eq__ is False for values of other classes", strict, loc(ci.module, guard),
                    f"`{norm_src(guard.test)}` -> `{norm_src(body[0])}`" if strict else
                    f"for an object that is not a {ci.name}, __eq__ does more than `return False` / `return NotImplemented`: a {ci.name} can compare equal to a bare value "
                    f"(e.g. {ci.name}(0) == 0) whose hash is not the hash of the {ci.name}, and through the generated __eq__ of the enclosing classes two values that encode "
                    f"differently compare equal")
            # no shortcut to True that skips a field: only `self is other` may answer True before every key has been compared
            selfn = params[0]
            for st in ast.walk(eqm.node):
                if isinstance(st, ast.If) and any(isinstance(b, ast.Return) and isinstance(b.value, ast.Constant) and b.value.value is True for b in st.body):
                    t = st.test
                    whole = isinstance(t, ast.Compare) and len(t.ops) == 1 and isinstance(t.ops[0], ast.Is) and {norm_src(t.left), norm_src(t.comparators[0])} == {selfn, other}
                    rep.add("R08.2", f"{ci.qual}::__eq__ answers True only after every key was compared", whole, loc(ci.module, st),
                            "`self is other` is the only shortcut" if whole else
                            f"`if {norm_src(t)[:70]}: return True` answers before the remaining fields are compared: two {ci.name} values that differ in a field not mentioned in that test "
                            f"(e.g. the position override of two constants holding the same nested code object) are equal, their hashes differ, and they encode differently")
            fields_in_eq = _self_fields(eq_keys, ci)
            missing = [f.name for f in ci.fields if f.name not in fields_in_eq]
            rep.add("R08.2", f"{ci.qual}::__eq__ covers every field", not missing, w,
                    f"__eq__ ignores field(s) {missing}: values that encode differently compare equal" if missing
                    else f"__eq__ compares keys {sorted(eq_keys)} covering all {len(ci.fields)} fields")
        if hm is None:
            identity = all(k == f"self.{f}" for k in eq_keys for f in _self_fields([k], ci)) and all(
                k.startswith("self.") and k.count("(") == 0 for k in eq_keys)
            rep.add("R08.2", f"{ci.qual}::eq key = hash key", identity, w,
                    "hand-written __eq__ compares " + ", ".join(sorted(eq_keys)) + " but __hash__ is the data-class generated hash of the raw "
                    "fields: where the key function is coarser than == on the raw value (all NaNs share one key; NaN hashes by identity "
                    "on 3.10+) equal constants get different hashes, so sets / dict keys of decoded CodeData lose members" if not identity
                    else "generated hash over the same raw fields the equality compares")
        else:
            comps = _hash_components(hm)
            if comps is None:
                raise AnalysisError(f"{hm.qual}: cannot recognise the hash idiom (expected `return hash((k1, k2, ...))`)")
            extra = sorted(c for c in comps if c not in eq_keys and not (c.isidentifier() is False and c.replace(" ", "") in {k.replace(" ", "") for k in eq_keys}))
            rep.add("R08.2", f"{ci.qual}::eq key = hash key", not extra, loc(ci.module, hm.node),
                    f"__hash__ hashes {extra}, which __eq__ does not compare through the same key (eq keys {sorted(eq_keys)}): equal values may hash differently" if extra
                    else f"__hash__ components {sorted(comps)} are a subset of the __eq__ keys {sorted(eq_keys)}")
    if n == 0:
        rep.add("R08.2", "no hand-written __eq__/__hash__", True, "code_data/__init__.py", "all data classes use generated eq/hash over the same fields", nontrivial=False)
        rep.add("R08.2", "no hand-written __eq__/__hash__ (2)", True, "code_data/__init__.py", "n/a", nontrivial=False)


def _elem_type(tg, t):
    t = tg.unfold_rec(t)
    if t[0] in ("tuple", "frozenset"):
        return t[1]
    if t[0] == "tuplefix":
        return tg._union(list(t[1])) if t[1] else ("leaf", "object")
    if t[0] == "union":
        parts = [_elem_type(tg, x) for x in t[1] if _container_typed(tg, x)]
        return tg._union(parts) if parts else None
    return None


def _bad_shapes(it, v, tg, t, depth=0, seen=None) -> List[str]:
    """Type-directed: which abstract values stored under declared type t are mutable / un-converted JSON arrays."""
    seen = seen if seen is not None else set()
    bad: List[str] = []
    cont = _container_typed(tg, t)
    for a in v:
        if (a, depth) in seen:
            continue
        seen.add((a, depth))
        if a[0] == "obj":
            kind = it.obj_kind(a)
            if kind in MUTABLE_KINDS:
                bad.append(f"{kind} object created at {a[1][0].split('.')[-1]}:{a[1][1]}")
            elif kind in ("tuple", "frozenset") and cont and depth < 4:
                et = _elem_type(tg, t)
                if et is not None:
                    bad += _bad_shapes(it, it.elements(frozenset([a])), tg, et, depth + 1, seen)
        elif a[0] == "src" and cont and it.roots.get(a[1]) == ("leaf", "object"):
            # value taken from a JSON document where the declared type allows a tuple/frozenset:
            # a JSON array stays a list unless it was narrowed away from list or converted
            tail = []
            for st in reversed(a[2]):
                if st[0] not in ("t", "nt"):
                    break
                tail.append(st)
            narrowed = any((st[0] == "t" and "list" not in st[1]) or (st[0] == "nt" and "list" in st[1]) for st in tail)
            if not narrowed:
                bad.append(f"un-converted JSON value {fmt_atom(a)} (a JSON array stays a list)")
    return bad


def _container_typed(tg, t) -> bool:
    t = tg.unfold_rec(t)
    if t[0] in ("tuple", "tuplefix", "frozenset"):
        return True
    if t[0] == "union":
        return any(_container_typed(tg, x) for x in t[1])
    return False


def r083(an, rep):
    tg = an.tg
    configs = [("from_code", V) for V in VERSIONS] + [("from_json", (3, 10)), ("normalize", (3, 10))]
    interps = []
    for entry, V in configs:
        it, ret = an.interp(entry, V)
        interps.append(it)
        for cq, objs in sorted(it.ctor_sites.items()):
            ci = an.prog.cls(cq)
            if not (ci.is_dataclass and ci.dc_args.get("frozen") is True):
                continue
            for o in sorted(objs, key=str):
                site = o[1]
                for f in ci.fields:
                    v = it.hget(o, ("a", f.name))
                    ft = tg.field_type(f)
                    bad = _bad_shapes(it, v, tg, ft)
                    rep.add("R08.3", f"{site[0]}:{cq.split('::')[1]}(...)@{_fn_of(it, site)}::{f.name}", not bad,
                            f"{site[0].replace('.', '/')}.py:{site[1]}",
                            f"field {f.name}: {tg.show(ft)} may receive {'; '.join(sorted(set(bad))[:3])}: the value is then unhashable / mutable" if bad
                            else f"field {f.name}: every stored shape is immutable", config=f"{entry}@{vname(V)}")
    rep.stats.update(an.stats(interps))


def _fn_of(it, site) -> str:
    # stable construct name: enclosing function of the constructor call + ordinal independent of line numbers
    mod = it.prog.module(site[0])
    best = None
    for f in it.prog.all_functions():
        if f.module is mod and f.node.lineno <= site[1] <= getattr(f.node, "end_lineno", f.node.lineno):
            if best is None or f.node.lineno >= best.node.lineno:
                best = f
    return best.qual.split("::")[1] if best else "<module>"


def r084(an, rep, rule="R08.4", nan_sign_matters=False):
    tg = an.tg
    prog = an.prog
    eqm = prog.cls("code_data::Constant").methods.get("__eq__")
    # locate the key function through Constant.__eq__ (or __hash__) rather than by name
    it, _ = an.interp("constant_eq")
    keyfns = [q for (c, q) in it.call_edges if c == eqm.qual] if eqm else []
    if not keyfns:
        raise AnalysisError("Constant.__eq__ calls no key function: anchor for R08.4 vanished")
    kf = prog.function(keyfns[0])
    # follow to the function that holds the isinstance chain over leaf types
    chain = [kf]
    cur = kf
    for _ in range(3):
        arms, rest = isinstance_arms(cur, cur.params[0])
        if len(arms) >= 4:
            break
        nxt = [prog.find_function(q) for (c, q) in it.call_edges if c == cur.qual]
        nxt = [f for f in nxt if f is not None and f.qual != cur.qual]
        if not nxt:
            break
        cur = nxt[0]
        chain.append(cur)
    arms, rest = isinstance_arms(cur, cur.params[0])
    if len(arms) < 4:
        raise AnalysisError(f"{cur.qual}: type dispatch not recognised")
    p = cur.params[0]
    w0 = loc(cur.module, cur.node)
    keynames = {f.name for f in chain}
    leaves = ["bool", "int", "float", "complex", "str", "bytes", "NoneType", "ellipsis", "tuple", "frozenset"]
    declared = {x[1] for x in tg.leaves_in(tg.resolve(ast.parse("InnerConstant", mode="eval").body, prog.module("code_data"))) if x[0] == "leaf"}
    declared = {("NoneType" if d == "None" else d) for d in declared} | {"tuple", "frozenset", "ellipsis"}
    for leaf in leaves:
        if leaf not in declared:
            continue
        arm = None
        for names, body, node in arms:
            if leaf in names or (leaf == "bool" and "int" in names):
                arm = (names, body, node)
                break
        if arm is None:
            rep.add(rule, f"{cur.qual}::{leaf}", False, w0, f"constant type {leaf} has no arm in the key function: such constants cannot be compared/encoded")
            continue
        names, body, node = arm
        rets = returns_of(body)
        if len(rets) != 1 or rets[0].value is None:
            # several returns (a shortcut plus the general case): the shape rule does not apply, the witness partition below decides the arm
            rep.add(rule, f"{cur.qual}::{leaf}", True, loc(cur.module, node), f"arm has {len(rets)} returns: decided by the witness partition only", nontrivial=False)
            continue
        from .encode_model import inline_locals
        rv = inline_locals(cur.node, rets[0].value)  # `tp = type(value)` ... `return (tp, value)` reads as `(type(value), value)`
        w = loc(cur.module, rets[0])
        if leaf in ("bool", "int", "float", "complex"):
            tagged = isinstance(rv, ast.Tuple) and any(
                isinstance(e, ast.Call) and isinstance(e.func, ast.Name) and e.func.id == "type" and len(e.args) == 1
                and isinstance(e.args[0], ast.Name) and e.args[0].id == p for e in rv.elts)
            ok = tagged
            why = "key is a tuple containing type(value)" if tagged else "key does not contain type(value): 1, 1.0 and True (equal under ==) become one constant"
            if ok and leaf in ("float", "complex"):
                need = 1 if leaf == "float" else 2
                sign = [e for e in rv.elts if _is_sign_component(prog, cur, e)]
                nan = [e for e in rv.elts if _is_nan_component(prog, cur, e)]
                if len(sign) < need:
                    ok, why = False, f"key has {len(sign)} sign-of-zero component(s), needs {need}: 0.0 and -0.0 become one constant"
                elif len(nan) < need:
                    ok, why = False, f"key has {len(nan)} NaN-canonicalised component(s), needs {need}: NaN constants are never equal to themselves (nan != nan)"
                else:
                    if leaf == "complex":
                        parts = {norm_src(e) for e in sign + nan}
                        both = any(".real" in s for s in parts) and any(".imag" in s for s in parts)
                        if not both:
                            ok, why = False, "sign / NaN components do not cover both .real and .imag"
                    if ok:
                        why += f"; {len(sign)} sign-of-zero and {len(nan)} NaN-canonicalised component(s)"
            if ok and leaf == "bool":
                why += " (bool shares the int arm; type(value) keeps True and 1 apart)"
            rep.add(rule, f"{cur.qual}::{leaf}", ok, w, why)
        elif leaf in ("tuple", "frozenset"):
            ctor = isinstance(rv, ast.Call) and isinstance(rv.func, ast.Name) and rv.func.id == leaf
            rec = bool(called_names(rv) & keynames)
            ok = ctor and rec
            rep.add(rule, f"{cur.qual}::{leaf}", ok, w,
                    f"key is {leaf}(...) of the element keys (recursion through {sorted(called_names(rv) & keynames)})" if ok
                    else f"{leaf} constants are not keyed element-wise through the key function: (1,) and (True,) / (0.0,) and (-0.0,) merge")
        else:
            ok = isinstance(rv, ast.Name) and rv.id == p or (isinstance(rv, ast.Tuple) and any(isinstance(e, ast.Name) and e.id == p for e in rv.elts))
            rep.add(rule, f"{cur.qual}::{leaf}", ok, w, "value is its own key (no cross-type equality among str/bytes/None/Ellipsis)" if ok
                    else "key does not contain the value", nontrivial=False)
    # fallthrough must raise
    raises = any(isinstance(st, ast.Raise) for st in rest)
    rep.add(rule, f"{cur.qual}::unknown type", raises, w0,
            "an unknown constant type raises" if raises else "an unknown constant type falls through without raising")
    # semantic check: one witness per cell of the partition the key induces on scalars (type, nan, sign bit, zero) and on containers of them
    import math
    from sa.feval import FevalError, PureEval

    def resolve(name):
        r = prog.resolve_global(cur.module, name, cur)
        if r and r[0] == "func":
            return r[1].node
        return None
    pe = PureEval(resolve, {"CodeData": type("CodeData", (), {}), "NotImplementedError": NotImplementedError})
    pe.module_assigns = cur.module.assigns  # module-level constants of the key function's module (e.g. a tuple of types)
    nan, nnan = float("nan"), math.copysign(float("nan"), -1.0)
    W = [("nan", nan), ("-nan", nnan), ("0.0", 0.0), ("-0.0", -0.0), ("1.0", 1.0), ("-1.0", -1.0), ("1", 1), ("True", True), ("0", 0), ("False", False),
         ("inf", float("inf")), ("'a'", "a"), ("b'a'", b"a"), ("None", None), ("...", Ellipsis),
         ("0j", complex(0.0, 0.0)), ("-0j", complex(0.0, -0.0)), ("(-0.0+0j)", complex(-0.0, 0.0)), ("complex(nan,0)", complex(nan, 0.0)), ("complex(-nan,0)", complex(nnan, 0.0)),
         ("complex(1,nan)", complex(1.0, nan)), ("complex(1,-nan)", complex(1.0, nnan)), ("complex(nan,nan)", complex(nan, nan)), ("complex(-0.0,nan)", complex(-0.0, nan)),
         ("(1,)", (1,)), ("(True,)", (True,)), ("(1.0,)", (1.0,)), ("(0.0,)", (0.0,)), ("(-0.0,)", (-0.0,)), ("(nan,)", (nan,)), ("(-nan,)", (nnan,)),
         ("frozenset({1})", frozenset({1})), ("frozenset({True})", frozenset({True})), ("frozenset({0.0})", frozenset({0.0})), ("frozenset({-0.0})", frozenset({-0.0})),
         # two NaN objects are two elements of a set (nan != nan): identifying NaNs cannot make a 2-element constant equal to a 1-element one
         ("frozenset({nan})", frozenset({nan})), ("frozenset({nan, nan'})", frozenset({nan, nnan})), ("frozenset({nan, 7})", frozenset({nan, 7}))]

    def refkey(v):
        if isinstance(v, float):
            return ("float", "nan") if math.isnan(v) else ("float", v, math.copysign(1.0, v))
        if isinstance(v, complex):
            return ("complex", refkey(v.real), refkey(v.imag))
        if isinstance(v, tuple):
            return ("tuple",) + tuple(refkey(x) for x in v)
        if isinstance(v, frozenset):
            ks = [refkey(x) for x in v]
            return ("frozenset", frozenset((k, ks.count(k)) for k in ks))
        return (type(v).__name__, v)
    W += [("10**400", 10 ** 400), ("-10**400", -10 ** 400), ("(10**400,)", (10 ** 400,))]  # ints have no size limit (floats do: math.isnan(10**400) overflows)
    keys = []
    for nm, v in W:
        try:
            keys.append((nm, pe.call(kf.node, v), refkey(v)))
        except FevalError as ex:
            raise AnalysisError(f"{kf.qual}: key function not evaluable on witness constants: {ex}")
        except (OverflowError, ValueError, ArithmeticError, TypeError) as ex:
            rep.add(rule, f"{kf.qual}::the key function is defined on the constant {nm}", False, loc(kf.module, kf.node),
                    f"the key function raises {type(ex).__name__} ({str(ex)[:50]}) on the constant {nm}: a program holding such a constant cannot be decoded, compared or encoded "
                    f"(an integer literal of more than 308 digits passes through a float-only test)")
    badpairs = []
    for i in range(len(keys)):
        for j in range(i + 1, len(keys)):
            try:
                same = keys[i][1] == keys[j][1]
            except Exception:
                same = False
            want = keys[i][2] == keys[j][2]
            if same != want:
                badpairs.append(f"{keys[i][0]} and {keys[j][0]} are {'identified' if same else 'kept apart'}, CPython's constant table (with all NaNs identified) {'keeps them apart' if same else 'identifies them'}")
    rep.add(rule, f"{kf.qual}::witness constants are partitioned like CPython's constant table", not badpairs, loc(kf.module, kf.node),
            "; ".join(badpairs[:3]) if badpairs else f"{len(W)} witness constants ({len(W) * (len(W) - 1) // 2} pairs): key equality == CPython identity with NaNs identified")
    # 'a' and b'a' hash alike, so a dict / set that holds both keys compares them: under `python -b` that warns, under `python -bb` it raises BytesWarning
    # (CPython's _PyCode_ConstantKey wraps bytes in (type, value) for this reason)
    kd = {nm: k for nm, k, _ in keys}
    bare = isinstance(kd.get("'a'"), str) and isinstance(kd.get("b'a'"), bytes)
    rep.add(rule, f"{kf.qual}::str and bytes keys are never compared with each other", not bare, loc(kf.module, kf.node),
            "the key of a bytes (or str) constant is tagged with its type" if not bare else
            "a str constant and a bytes constant are their own keys: 'a' and b'a' have the same hash, so the tables that hold both compare them - `python -bb` turns that comparison "
            "into an exception, and from_code / to_code / == fail for a valid program like `x = 'a'; y = b'a'`")
    if nan_sign_matters:
        # where behaviour is compared (C05), the sign bit of a NaN is observable (math.copysign, struct.pack): CPython keeps nan and -nan as two constants
        try:
            same = pe.call(kf.node, nan) == pe.call(kf.node, nnan)
        except FevalError as ex:
            raise AnalysisError(f"{kf.qual}: key function not evaluable on NaN witnesses: {ex}")
        rep.add(rule, f"{kf.qual}::NaN constants of opposite sign are kept apart", not same, loc(kf.module, kf.node),
                "nan and -nan get different keys" if not same else
                "nan and -nan get the same key: `x = 1e999-1e999; y = -(1e999-1e999)` holds two NaN constants with opposite sign bits; with the position overrides stripped by normalize() "
                "the encoder merges them, so `math.copysign(1, y)` changes from 1.0 to -1.0 - the re-encoded program prints something else")
    # CodeData arm of the outer key function
    if kf is not cur:
        arms2, _ = isinstance_arms(kf, kf.params[0])
        ok = any("CodeData" in names for names, _, _ in arms2) and bool(called_names(kf.node) & {cur.name})
        rep.add(rule, f"{kf.qual}::CodeData + delegation", ok, loc(kf.module, kf.node),
                "nested code objects are their own key; everything else is keyed by the inner key function" if ok else "outer key function does not delegate to the inner one")
        # the key of a nested code object is the whole value (or mentions every field that takes part in its equality)
        cd = prog.cls("code_data::CodeData")
        for names, body, node in arms2:
            if "CodeData" not in names:
                continue
            rets = returns_of(body)
            pk = kf.params[0]
            for r in rets:
                rv = r.value
                whole = isinstance(rv, ast.Name) and rv.id == pk or (isinstance(rv, ast.Tuple) and any(isinstance(e, ast.Name) and e.id == pk for e in rv.elts))
                used = {a.attr for a in ast.walk(rv) if isinstance(a, ast.Attribute) and isinstance(a.value, ast.Name) and a.value.id == pk} if rv is not None else set()
                missing = [fl.name for fl in cd.fields if fl.flags.get("compare", True) is not False and fl.name not in used]
                okc = whole or not missing
                rep.add(rule, f"{kf.qual}::nested code object keyed by its whole value", okc, loc(kf.module, r),
                        "the CodeData is its own key" if whole else
                        (f"key mentions every compared field of CodeData" if okc else
                         f"the key of a nested code object is `{norm_src(rv)}`, which leaves out {missing[:4]}{'...' if len(missing) > 4 else ''}: two different nested code objects "
                         f"(e.g. `lambda: 1` and `lambda: 2` on one line) compare equal as constants and are merged into one entry when re-encoding"))


def _callee_body(prog, cur, e):
    if isinstance(e, ast.Call) and isinstance(e.func, ast.Name):
        r = prog.resolve_global(cur.module, e.func.id, cur)
        if r and r[0] == "func":
            return r[1].node
    return e


def _is_sign_component(prog, cur, e) -> bool:
    body = _callee_body(prog, cur, e)
    names = called_names(body)
    if "copysign" in names or "signbit" in names:
        return True
    for n in ast.walk(body):
        if isinstance(n, ast.Compare):
            for c in [n.left] + n.comparators:
                if isinstance(c, ast.Constant) and c.value in ("-0.0", "-0"):
                    return True
    return False


def _is_nan_component(prog, cur, e) -> bool:
    body = _callee_body(prog, cur, e)
    names = called_names(body)
    if "isnan" in names:
        return True
    for n in ast.walk(body):
        if isinstance(n, ast.Compare) and len(n.ops) == 1 and isinstance(n.ops[0], ast.NotEq) and ast.dump(n.left) == ast.dump(n.comparators[0]):
            return True
    return False
