"""Facts about the encoder (to_code closure) shared by several rule modules."""
from __future__ import annotations

import ast
import copy
from typing import Dict, List, Optional, Tuple

from sa.analysis import Analysis
from sa.model import AnalysisError, FunctionInfo, Module, loc, norm_src

_parents: Dict[str, Dict[int, ast.AST]] = {}


def parent_map(m: Module) -> Dict[int, ast.AST]:
    if m.name not in _parents or _parents[m.name].get("__tree__") is not m.tree:
        pm: Dict = {"__tree__": m.tree}
        for n in ast.walk(m.tree):
            for c in ast.iter_child_nodes(n):
                pm[id(c)] = n
        _parents[m.name] = pm
    return _parents[m.name]


def in_error_message(m: Module, node: ast.AST) -> bool:
    pm = parent_map(m)
    cur = node
    while id(cur) in pm:
        par = pm[id(cur)]
        if isinstance(par, ast.Raise):
            return True
        if isinstance(par, ast.Assert) and par.msg is not None and _contains(par.msg, cur):
            return True
        cur = par
    return False


def _contains(root, node) -> bool:
    return any(n is node for n in ast.walk(root))


def enclosing_function(an: Analysis, m: Module, node: ast.AST) -> Optional[FunctionInfo]:
    pm = parent_map(m)
    cur = node
    while id(cur) in pm:
        cur = pm[id(cur)]
        if isinstance(cur, (ast.FunctionDef, ast.Lambda)):
            for f in an.prog.all_functions(include_tests=True):
                if f.node is cur:
                    return f
    return None


def field_reads(an: Analysis, entry: str, V) -> Dict[Tuple[str, str], List[str]]:
    it, _ = an.interp(entry, V)
    out: Dict[Tuple[str, str], List[str]] = {}
    for (cq, attr), sites in it.attr_reads.items():
        for modname, nid in sorted(sites):
            m = an.prog.module(modname)
            node = it.node_index.get(nid)
            if node is None or in_error_message(m, node):
                continue
            out.setdefault((cq, attr), []).append(loc(m, node))
    for k in out:
        out[k] = sorted(set(out[k]))
    return out


def encoder_field_reads(an: Analysis, V):
    return field_reads(an, "to_code", V)


def inline_locals(fn_node: ast.AST, expr: ast.AST, depth: int = 4, keep_calls: bool = False, keep=()) -> ast.AST:
    """Substitute names assigned exactly once in the function by their defining expression."""
    assigns: Dict[str, List[ast.AST]] = {}
    for n in ast.walk(fn_node):
        if isinstance(n, ast.Assign) and len(n.targets) == 1 and isinstance(n.targets[0], ast.Name):
            assigns.setdefault(n.targets[0].id, []).append(n.value)
        elif isinstance(n, ast.Assign):
            for t in n.targets:
                for x in ast.walk(t):
                    if isinstance(x, ast.Name) and isinstance(x.ctx, ast.Store):
                        assigns.setdefault(x.id, []).append(None)  # tuple / multiple targets: not inlinable
        elif isinstance(n, (ast.AugAssign, ast.AnnAssign)) and isinstance(n.target, ast.Name):
            assigns.setdefault(n.target.id, []).append(None)
        elif isinstance(n, (ast.For, ast.comprehension)):
            for t in ast.walk(n.target):
                if isinstance(t, ast.Name):
                    assigns.setdefault(t.id, []).append(None)
    params = set()
    if isinstance(fn_node, ast.FunctionDef):
        a = fn_node.args
        params = {x.arg for x in a.posonlyargs + a.args + a.kwonlyargs}

    class Sub(ast.NodeTransformer):
        def visit_Name(self, n):
            if isinstance(n.ctx, ast.Load) and n.id not in params and n.id not in keep and len(assigns.get(n.id, [])) == 1 and assigns[n.id][0] is not None:
                if keep_calls and isinstance(assigns[n.id][0], ast.Call):
                    return n
                return copy.deepcopy(assigns[n.id][0])
            return n

    e = copy.deepcopy(expr)
    for _ in range(depth):
        before = ast.dump(e)
        e = Sub().visit(e)
        if ast.dump(e) == before:
            break
    return ast.fix_missing_locations(e)


def guards_of(m: Module, fn: FunctionInfo, node: ast.AST) -> List[Tuple[ast.AST, bool]]:
    """Enclosing If tests (with polarity) of a statement inside fn."""
    pm = parent_map(m)
    out: List[Tuple[ast.AST, bool]] = []
    cur = node
    while id(cur) in pm and pm[id(cur)] is not fn.node:
        par = pm[id(cur)]
        if isinstance(par, ast.If):
            if any(cur is s for s in par.body):
                out.append((par.test, True))
            elif any(cur is s for s in par.orelse):
                out.append((par.test, False))
        cur = par
    return list(reversed(out))


def conj(tests: List[Tuple[ast.AST, bool]]) -> ast.AST:
    parts = [t if pos else ast.UnaryOp(ast.Not(), t) for t, pos in tests]
    if not parts:
        return ast.Constant(True)
    if len(parts) == 1:
        return parts[0]
    return ast.fix_missing_locations(ast.BoolOp(ast.And(), parts))


def constants_table_objs(an: Analysis, V=(3, 10)):
    """Abstract table objects of the encoder that are keyed by a key function (the constants table)."""
    it, _ = an.interp("to_code", V)
    out = []
    for cq, objs in it.ctor_sites.items():
        ci = an.prog.cls(cq)
        if ci.is_dataclass and ci.dc_args.get("frozen"):
            continue
        for o in objs:
            for f, vals in it.obj_fields(o).items():
                if any(a[0] == "func" for a in vals):
                    out.append((o, f, [a for a in vals if a[0] == "func"]))
    return out


def find_docstring_guards(an: Analysis, V=(3, 10)) -> List[dict]:
    it, _ = an.interp("to_code", V)
    tabs = {o for o, f, fns in constants_table_objs(an, V) if any(not a[1].startswith("builtins") for a in fns)}
    res = []
    for f in an.closure("to_code", V):
        for st in ast.walk(f.node):
            if not (isinstance(st, ast.Assign) and len(st.targets) == 1 and isinstance(st.targets[0], ast.Subscript)):
                continue
            t = st.targets[0]
            if not (isinstance(t.slice, ast.Constant) and t.slice.value == 0 and isinstance(t.value, ast.Name)):
                continue
            tv = it.value_at(t.value)
            if not tv:  # statement pruned as unreachable by the interpreter: fall back to the parameter's summary
                tv = param_values(it, f, t.value.id)
            if not (tv & tabs):
                continue
            tests = guards_of(f.module, f, st)
            test = inline_locals(f.node, conj(tests))
            kind = "pin" if (isinstance(st.value, ast.Constant) and st.value.value is None) else "seed"
            block = arg = None
            for n in ast.walk(test):
                if isinstance(n, ast.Name) and n.id in f.params:
                    ann = _param_ann(f, n.id)
                    tt = an.tg.resolve(ann, f.module) if ann is not None else None
                    if tt is not None and "code_data::Function" in an.tg.classes_in(tt) and "code_data::Constant" not in an.tg.classes_in(tt):
                        block = n.id
                    elif tt is not None and "code_data::Constant" in an.tg.classes_in(tt):
                        arg = n.id
            if block is None:
                raise AnalysisError(f"{f.qual}: guard of {norm_src(st)} does not test the block type")
            res.append({"fn": f.qual, "kind": kind, "test": test, "block": block, "table": t.value.id, "arg": arg,
                        "where": loc(f.module, st), "stmt": st})
    return res


def param_values(it, f: FunctionInfo, name: str):
    out = set()
    for (q, ctx), summ in it.summaries.items():
        if q == f.qual:
            out |= summ["args"].get(name, frozenset())
    return frozenset(out)


def _param_ann(f: FunctionInfo, name: str):
    a = f.node.args
    for x in a.posonlyargs + a.args + a.kwonlyargs:
        if x.arg == name:
            return x.annotation
    return None


def inline_reaching(fn_node: ast.AST, at: ast.AST, expr: ast.AST, depth: int = 4) -> ast.AST:
    """Substitute a name by the single assignment that reaches `at` in straight-line code: the nearest preceding simple
    assignment among the earlier statements of the function body, with no other store to the name in between (flow-sensitive
    complement of inline_locals, for names that are re-bound later, e.g. as a loop variable)."""
    body = getattr(fn_node, "body", [])
    idx = None
    for i, st in enumerate(body):
        if any(x is at for x in ast.walk(st)):
            idx = i
            break
    if idx is None:
        return expr

    def stores(st, name):
        return any(isinstance(x, ast.Name) and x.id == name and isinstance(x.ctx, (ast.Store, ast.Del)) for x in ast.walk(st))

    def reaching(name, before):
        for j in range(before - 1, -1, -1):
            st = body[j]
            if isinstance(st, ast.Assign) and len(st.targets) == 1 and isinstance(st.targets[0], ast.Name) and st.targets[0].id == name:
                return j, st.value
            if stores(st, name):
                return None
        return None

    def sub(e, before, d):
        if d > depth:
            return e

        class Sub(ast.NodeTransformer):
            def visit_Name(self, n):
                if isinstance(n.ctx, ast.Load):
                    r = reaching(n.id, before)
                    if r is not None:
                        return sub(copy.deepcopy(r[1]), r[0], d + 1)
                return n
        return Sub().visit(e)
    return ast.fix_missing_locations(sub(copy.deepcopy(expr), idx, 0))
