"""Structural model of the `normalize` function shared by C05 and C06."""
from __future__ import annotations

import ast
from typing import Dict, List, Optional, Tuple

from sa.analysis import Analysis
from sa.model import AnalysisError, ClassInfo, FunctionInfo, loc, norm_src

from .common import isinstance_arms, returns_of

NOFOLD = object()


def fold_default(node: Optional[ast.AST]):
    """Constant-fold a default / reset expression: tuple() == (), NoArg() == 'NoArg()' with all defaults."""
    if node is None:
        return NOFOLD
    try:
        return ast.literal_eval(node)
    except Exception:
        pass
    if isinstance(node, ast.Call) and not node.args and not node.keywords:
        f = node.func
        name = f.id if isinstance(f, ast.Name) else getattr(f, "attr", None)
        if name == "tuple":
            return ()
        if name == "frozenset":
            return frozenset()
        if name:
            return ("<all-defaults>", name)
    if isinstance(node, ast.Subscript) and isinstance(node.slice, ast.Slice) and node.slice.lower is None \
            and isinstance(node.slice.upper, ast.Constant) and node.slice.upper.value == 0:
        return ()  # x[:0] of a tuple-typed field
    if isinstance(node, ast.Lambda) and not node.args.args:
        return fold_default(node.body)
    return NOFOLD


def field_default(f):
    if f.default is not None:
        return fold_default(f.default)
    if f.default_factory is not None:
        d = f.default_factory
        if isinstance(d, ast.Lambda):
            return fold_default(d.body)
        if isinstance(d, ast.Name):
            return () if d.id == "tuple" else ("<all-defaults>", d.id)
    return NOFOLD


class Arm:
    def __init__(self, names, kind, kws, node, ret):
        self.names = names  # class names handled
        self.kind = kind  # replace | ctor | map | identity
        self.kws: Dict[str, ast.AST] = kws
        self.node = node
        self.ret = ret
        self.ctor_class: Optional[str] = None
        self.cond: Dict[str, tuple] = {}  # field -> (guard, value): replaced only when the guard holds


def _strip_cast(e):
    while isinstance(e, ast.Call) and isinstance(e.func, ast.Name) and e.func.id == "cast" and len(e.args) == 2:
        e = e.args[1]
    return e


def find_normalize(an: Analysis) -> FunctionInfo:
    it, _ = an.interp("normalize")
    api = an.prog.function("code_data::CodeData.normalize")
    cands = [q for (c, q) in it.call_edges if c == api.qual]
    if len(cands) != 1:
        raise AnalysisError(f"CodeData.normalize delegates to {cands}: anchor not recognised")
    return an.prog.function(cands[0])


def _replace_of(e, p):
    e = _strip_cast(e)
    if isinstance(e, ast.Call) and (e.func.id if isinstance(e.func, ast.Name) else getattr(e.func, "attr", "")) == "replace" \
            and e.args and isinstance(e.args[0], ast.Name) and e.args[0].id == p and all(k.arg for k in e.keywords):
        return {k.arg: k.value for k in e.keywords}
    return None


def _rebinding_arm(names, body, node, p):
    """Arm written as successive re-bindings of the parameter: `x = replace(x, ...)`, `if G: x = replace(x, ...)`, ..., `return x`."""
    if len(body) < 2 or not isinstance(body[-1], ast.Return) or body[-1].value is None:
        return None
    r = _strip_cast(body[-1].value)
    if not (isinstance(r, ast.Name) and r.id == p):
        return None
    kws: Dict[str, ast.AST] = {}
    cond: Dict[str, tuple] = {}
    seen = False
    for st in body[:-1]:
        if isinstance(st, ast.Expr) and isinstance(st.value, ast.Constant):
            continue
        if isinstance(st, ast.Assign) and len(st.targets) == 1 and isinstance(st.targets[0], ast.Name) and st.targets[0].id == p:
            k = _replace_of(st.value, p)
            if k is None:
                return None
            kws.update(k)
            for name in k:
                cond.pop(name, None)
            seen = True
            continue
        if isinstance(st, ast.If) and not st.orelse and len(st.body) == 1 and isinstance(st.body[0], ast.Assign) and len(st.body[0].targets) == 1 \
                and isinstance(st.body[0].targets[0], ast.Name) and st.body[0].targets[0].id == p:
            k = _replace_of(st.body[0].value, p)
            if k is None:
                return None
            for name, v in k.items():
                if name not in kws:
                    cond[name] = (st.test, v)
                else:
                    return None  # a conditional change after an unconditional one: not modelled
            seen = True
            continue
        return None
    if not seen:
        return None
    arm = Arm(names, "replace", kws, node, body[-1])
    arm.cond = cond
    return arm


def parse_normalize(an: Analysis):
    fn = find_normalize(an)
    p = fn.params[0]
    arms_raw, rest = isinstance_arms(fn, p)
    if not arms_raw:
        raise AnalysisError(f"{fn.qual}: no isinstance arms recognised")
    arms: List[Arm] = []
    for names, body, node in arms_raw:
        rb = _rebinding_arm(names, body, node, p)
        if rb is not None:
            arms.append(rb)
            continue
        rets = returns_of(body)
        pre = [st for st in body[:-1]]
        if len(rets) != 1 or not isinstance(body[-1], ast.Return) or not all(isinstance(st, (ast.Assign, ast.AnnAssign, ast.Expr, ast.ImportFrom, ast.Import)) for st in pre):
            raise AnalysisError(f"{fn.qual}: arm for {names} is not straight-line code ending in a single return")
        from .encode_model import inline_locals
        e = _strip_cast(inline_locals(ast.Module(body=body, type_ignores=[]), rets[0].value) if pre else rets[0].value)
        arm = None
        if isinstance(e, ast.Call):
            fname = e.func.id if isinstance(e.func, ast.Name) else getattr(e.func, "attr", "")
            if fname == "replace" and e.args and isinstance(e.args[0], ast.Name) and e.args[0].id == p:
                arm = Arm(names, "replace", {k.arg: k.value for k in e.keywords if k.arg}, node, rets[0])
            elif fname == "tuple" and len(e.args) == 1:
                inner = e.args[0]
                ok = False
                if isinstance(inner, ast.Call) and isinstance(inner.func, ast.Name) and inner.func.id == "map" and len(inner.args) == 2:
                    ok = isinstance(inner.args[0], ast.Name) and inner.args[0].id == fn.name and isinstance(inner.args[1], ast.Name) and inner.args[1].id == p
                elif isinstance(inner, ast.GeneratorExp) and len(inner.generators) == 1:
                    g = inner.generators[0]
                    ok = (isinstance(g.iter, ast.Name) and g.iter.id == p and isinstance(inner.elt, ast.Call)
                          and isinstance(inner.elt.func, ast.Name) and inner.elt.func.id == fn.name and not g.ifs)
                if ok:
                    arm = Arm(names, "map", {}, node, rets[0])
            else:
                r = an.prog.resolve_global(fn.module, fname, fn) if fname else None
                if r and r[0] == "class":
                    ci: ClassInfo = r[1]
                    kws = {k.arg: k.value for k in e.keywords if k.arg}
                    for f, a in zip(ci.fields, e.args):
                        kws[f.name] = a
                    arm = Arm(names, "ctor", kws, node, rets[0])
                    arm.ctor_class = ci.name
        elif isinstance(e, ast.Name) and e.id == p:
            arm = Arm(names, "identity", {}, node, rets[0])
        if arm is None:
            raise AnalysisError(f"{fn.qual}: arm for {names} returns an unrecognised form: {norm_src(rets[0])}")
        arms.append(arm)
    fall_identity = any(isinstance(st, ast.Return) and isinstance(st.value, ast.Name) and st.value.id == p for st in rest)
    return fn, p, arms, fall_identity


def is_recursion_on(fn: FunctionInfo, p: str, expr: ast.AST, fieldname: str) -> bool:
    """expr is normalize(p.field)"""
    return (isinstance(expr, ast.Call) and isinstance(expr.func, ast.Name) and expr.func.id == fn.name and len(expr.args) == 1
            and isinstance(expr.args[0], ast.Attribute) and expr.args[0].attr == fieldname
            and isinstance(expr.args[0].value, ast.Name) and expr.args[0].value.id == p)


def is_same_field(p: str, expr: ast.AST, fieldname: str) -> bool:
    return (isinstance(expr, ast.Attribute) and expr.attr == fieldname and isinstance(expr.value, ast.Name) and expr.value.id == p)


def arm_for(arms: List[Arm], cname: str) -> Optional[Arm]:
    for a in arms:
        if cname in a.names:
            return a
    return None


def classes_with_private_reach(an: Analysis):
    """For every data class: does it (or anything reachable through its fields) carry a private field?"""
    tg = an.tg
    from .common import data_classes
    dcs = data_classes(an)
    has_priv = {c.qual: any(f.private for f in c.fields) for c in dcs}
    reach = dict(has_priv)
    changed = True
    while changed:
        changed = False
        for c in dcs:
            if reach[c.qual]:
                continue
            for f in c.fields:
                if any(reach.get(q, False) for q in tg.classes_in(tg.field_type(f))):
                    reach[c.qual] = True
                    changed = True
    return dcs, has_priv, reach


def keeps_acting_entries(p: str, v: ast.AST, fieldname: str) -> bool:
    """`v` restricts the tuple `p.<fieldname>` to its entries that are not zero, in order (decided on witness tuples).  For a field that lists extra
    line-table entries this is the canonical form that keeps what CPython acts on: an entry of zero is redundant, an entry that moves the line fires a
    line event when tracing (C05) - the restriction is idempotent and depends on nothing else, which is all C06 needs of a normal form."""
    from sa.feval import FevalError, feval
    names = {n.id for n in ast.walk(v) if isinstance(n, ast.Name) and isinstance(n.ctx, ast.Load)}
    attrs = {(n.value.id, n.attr) for n in ast.walk(v) if isinstance(n, ast.Attribute) and isinstance(n.value, ast.Name)}
    if attrs != {(p, fieldname)} or not names <= {p, "tuple", "list", "filter", "bool"} | {n.id for n in ast.walk(v) if isinstance(n, ast.Name) and isinstance(n.ctx, ast.Store)}:
        return False
    try:
        for w in [(), (0,), (1, -1), (0, 2, 0), (0, 0), (-1,), (3, 0, -3, 0, 5)]:
            got = feval(v, {p: {fieldname: w}, "tuple": tuple, "list": list})
            if not isinstance(got, tuple) or got != tuple(x for x in w if x != 0):
                return False
    except (FevalError, KeyError, TypeError):
        return False
    return True
