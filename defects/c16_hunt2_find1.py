# Run with any of /root/.pyenv/versions/{3.7.16,3.8.18,3.9.18,3.10.13}/bin/python
#   PYTHONPATH=/tmp/shim:/tmp/hunt2_C16 <python> find1.py
# `python-code-data -c PROG` rejects a valid one-line program that starts with "-"
# (and has no space) with a usage error, although exactly one source was given.
import subprocess, sys

CLI = "import sys; sys.argv[0]='python-code-data'; from code_data._cli import main; main()"

def cli(*args):
    p = subprocess.run([sys.executable, "-c", CLI, *args], capture_output=True, text=True)
    return p.returncode, p.stdout, p.stderr

for prog in ["-1+2", "-1j", "-(1)", "--1", "-x"]:
    # CPython compiles all of them, and `python -c` takes them as they are
    compile(prog, "<string>", "exec")
    if prog != "-x":  # -x is a NameError at run time only
        assert subprocess.run([sys.executable, "-c", prog]).returncode == 0
    rc, out, err = cli("-c", prog)
    print(repr(prog), "-> exit", rc, err.strip().splitlines()[-1:] )
    # control: the same program with a space in it is accepted
    rc2, _, _ = cli("-c", prog + " ")
    assert rc2 == 0, "control failed"
    assert rc == 0, "exactly one source (-c %r), a valid program, but exit %d: %s" % (
        prog, rc, err.strip().splitlines()[-1])
