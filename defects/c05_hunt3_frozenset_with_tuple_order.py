# Run with 3.8.18, 3.9.18 or 3.10.13 (PYTHONPATH=/tmp/shim:/tmp/hunt3_C05); 3.7.16 happens to keep the order.
# to_code() rebuilds a frozenset constant which holds a tuple; the copy iterates in
# another order, so the output of a deterministic program changes (no JSON involved).
import contextlib
import io
from code_data import CodeData

SRC = "for x in {(1, 2), 3, 4}:\n    print(x)\n"


def output(code):
    out = io.StringIO()
    with contextlib.redirect_stdout(out):
        exec(code, {})
    return out.getvalue().split("\n")


code = compile(SRC, "<t>", "exec")
normalized = CodeData.from_code(code).normalize().to_code()
a, b = output(code), output(normalized)
print("original  ", a)
print("normalized", b)
assert a == b, "normalize() + to_code() changed the output of the program"
