# Run with any of /root/.pyenv/versions/{3.7.16,3.8.18,3.9.18,3.10.13}/bin/python
# Two free variables with the same name: from_code returns, to_code() points both
# LOAD_DEREF at the first cell, so co_code differs and the function computes another value.
import sys, types
from code_data import CodeData

def outer():
    a, b = 1, 2
    def g(): return a, b
    return g

g = outer()
c = g.__code__
assert c.co_freevars == ("a", "b")
fv = ("a", "a")
if sys.version_info >= (3, 8):
    c2 = c.replace(co_freevars=fv)
else:
    c2 = types.CodeType(c.co_argcount, c.co_kwonlyargcount, c.co_nlocals, c.co_stacksize,
                        c.co_flags, c.co_code, c.co_consts, c.co_names, c.co_varnames,
                        c.co_filename, c.co_name, c.co_firstlineno, c.co_lnotab, fv,
                        c.co_cellvars)
run = lambda code: types.FunctionType(code, {}, "g", None, g.__closure__)()
assert run(c2) == (1, 2)  # CPython: the second free variable is still the second cell

back = CodeData.from_code(c2).to_code()  # no exception
print("co_code :", c2.co_code.hex(), "->", back.co_code.hex())
print("result  :", run(c2), "->", run(back))
assert back.co_freevars == fv and back.co_flags == c2.co_flags
assert back.co_code == c2.co_code, "LOAD_DEREF 1 became LOAD_DEREF 0"
