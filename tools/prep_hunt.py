"""Prepare scratch worktrees for a defect hunt on the UNCHANGED library (run by hand; nothing here is part of a check).

For each property Cxx: a detached worktree of /repo's HEAD at /tmp/hunt<k>_Cxx with PROPERTY.txt and PROMPT.txt; the prompt lists what is
already known (the `known` entries of known_findings.json and tools/weak_spots.txt) so that it is not reported again.  Nothing else from /verif
is copied.  usage: prep_hunt.py <hunt number> [Cxx ...]
"""
import json
import os
import subprocess
import sys

V = os.path.dirname(os.path.dirname(os.path.abspath(__file__)))


def main():
    k = sys.argv[1]
    props = {json.loads(l)["id"]: json.loads(l) for l in open(os.path.join(V, "properties.jsonl"))}
    known = json.load(open(os.path.join(V, "known_findings.json")))
    lines = []
    for e in known.get("findings", []):
        if e.get("state") == "known":
            lines.append(" - " + str(e.get("what", ""))[:260])
    weak = [" " + l.strip() for l in open(os.path.join(V, "tools", "weak_spots.txt")).read().splitlines() if l.startswith("- ")]
    text = "\n".join(dict.fromkeys(lines + weak))
    prompt = open(os.path.join(V, "tools", "hunt_prompt.txt")).read()
    for pid in sys.argv[2:] or sorted(props):
        wt = f"/tmp/hunt{k}_{pid}"
        if os.path.isdir(wt):
            subprocess.run(["git", "-C", "/repo", "worktree", "remove", "--force", wt], check=False)
        subprocess.run(["git", "-C", "/repo", "worktree", "prune"], check=True)
        subprocess.run(["git", "-C", "/repo", "worktree", "add", "--detach", wt, "HEAD"], check=True, stdout=subprocess.DEVNULL, stderr=subprocess.DEVNULL)
        os.makedirs(f"{wt}/out", exist_ok=True)
        d = props[pid]
        open(f"{wt}/PROPERTY.txt", "w").write(f"{d.get('title', '')}\n\n{d.get('statement') or d.get('text')}\n")
        open(f"{wt}/PROMPT.txt", "w").write(prompt.replace("{WT}", wt).replace("{KNOWN}", text))
        print(pid, "ready:", wt)


if __name__ == "__main__":
    main()
