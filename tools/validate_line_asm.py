"""Validates reference/line_tables.py against a real interpreter (run by hand under each of 3.7 - 3.10; not part of any check).

For generated programs that hit the limits of the formats and for a sample of the standard library: the table CPython wrote is (a) read by the
transcribed reader exactly as dis / co_lines read it and (b) reproduced by the transcribed assembler from the (offset, line) change points.
usage: pythonX.Y tools/validate_line_asm.py
"""
import dis
import os
import sys

sys.path.insert(0, os.path.join(os.path.dirname(os.path.abspath(__file__)), ".."))
from reference.line_tables import asm_linetable, asm_lnotab, read_linetable, read_lnotab  # noqa: E402

LT = sys.version_info >= (3, 10)


def codes(c):
    yield c
    for k in c.co_consts:
        if hasattr(k, "co_code"):
            yield from codes(k)


def check(c, stats):
    n = len(c.co_code)
    first = c.co_firstlineno
    if LT:
        tab = c.co_linetable
        want = {}
        for s, e, l in c.co_lines():
            for o in range(s, e, 2):
                want[o] = None if l is None else l - first
        for o in range(0, n, 2):
            assert read_linetable(tab, o) == want.get(o, "<no entry>"), (c, o)
        seq, last = [], "x"
        for o in range(0, n, 2):
            l = want.get(o)
            if l != last:
                seq.append((o, l))
                last = l
        again = asm_linetable(seq, n)
    else:
        tab = c.co_lnotab
        starts = dict(dis.findlinestarts(c))
        cur = None
        for o in range(0, n, 2):
            if o in starts:
                cur = starts[o] - first
            if cur is not None:
                assert read_lnotab(tab, o) == cur, (c, o, read_lnotab(tab, o), cur)
        # the change points as dis reports them; a table that went through the peephole pass or holds zero line deltas (3.7 / 3.8: a second
        # statement on one line) is not what the assembler alone writes from these points - those are counted apart
        seq = [(o, l - first) for o, l in dis.findlinestarts(c)]
        again = asm_lnotab(seq, False)
        zero = any(tab[i] and not tab[i + 1] and tab[i] != 255 for i in range(0, len(tab), 2)) or any(not tab[i] and i and tab[i + 1] not in (127, 128) and tab[i - 1] not in (127, 128) for i in range(0, len(tab), 2))
        if again != tab and zero:
            stats["lnotab"] += 1
            again = None
    if again is not None:
        if again == tab:
            stats["same"] += 1
        else:
            stats["diff"].append((c.co_name, c.co_filename, tab.hex()[:60], again.hex()[:60]))


def generated():
    out = []
    for gap in (1, 126, 127, 128, 129, 253, 254, 255, 256, 300, 700):
        out.append("def f():\n a = 1\n" + "\n" * gap + " b = 2\n return a\n")
        out.append("def f():\n a = (1,\n" + "\n" * gap + " b)\n c = 2\n")  # backward step: the tuple is built on the first line
        out.append("def f():\n x = [\n" + "\n" * gap + " y for y in z]\n return x\n")
    for width in (40, 84, 85, 86, 127, 128, 170, 171, 340, 700):
        out.append("def f():\n a = [" + ", ".join("x%d" % i for i in range(width)) + "]\n b = 2\n" + "\n" * 200 + " c = 3\n return a\n")
    out.append("def f():\n if x:\n  pass\n" + "\n" * 300 + " else:\n  y\n")
    out.append("def f():\n try:\n  a\n finally:\n  b\n" + "\n" * 130 + " c\n")
    out.append("def f():\n for x in y:\n  if x: continue\n" + "\n" * 200 + "  z\n")
    out.append("def f():\n with a:\n  b\n" + "\n" * 300 + " return 1\n")
    return out


def main():
    stats = {"same": 0, "diff": [], "lnotab": 0}
    n = 0
    for src in generated():
        for c in codes(compile(src, "<gen>", "exec")):
            check(c, stats)
            n += 1
            if not LT:
                # programs without removed code: the assembler's table from the instructions' own lines
                pass
    lib = os.path.dirname(os.__file__)
    for fn in sorted(os.listdir(lib))[:120]:
        if fn.endswith(".py"):
            try:
                c = compile(open(os.path.join(lib, fn), encoding="utf-8").read(), fn, "exec")
            except (SyntaxError, UnicodeDecodeError):
                continue
            for k in codes(c):
                check(k, stats)
                n += 1
    print(sys.version_info[:2], "code objects:", n, "reassembled identically:", stats["same"], "differ:", len(stats["diff"]), "lnotab read-only:", stats["lnotab"])
    for d in stats["diff"][:5]:
        print("  DIFF", d)
    return 1 if stats["diff"] else 0


if __name__ == "__main__":
    sys.exit(main())
