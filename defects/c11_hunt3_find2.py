# Run with 3.10.13 (3.7-3.9 raise NotImplementedError for the same co_code).
# co_code that ends in a dangling EXTENDED_ARG prefix which the line table does not
# cover (a table that ends early): the last code unit is dropped silently.
import dis
from code_data import CodeData

base = compile("\nx = 1\n", "f.py", "exec")
code = base.replace(co_code=base.co_code + bytes([dis.EXTENDED_ARG, 7]))
assert code.co_linetable == b"\x08\x01"  # covers the first 8 of the 10 bytes
assert [i.opname for i in dis.get_instructions(code)][-1] == "EXTENDED_ARG"
data = CodeData.from_code(code)  # does not raise
back = data.to_code()
print(code.co_code.hex(), "->", back.co_code.hex())
assert back.co_code == code.co_code, "co_code lost its last code unit, nothing raised"
