"""C10 - line-table codec: only the format constants are decided (DESIGN 5, R10.1-R10.4; everything else: section 8)."""
from __future__ import annotations

import ast
import copy
from typing import Dict, List, Optional, Set, Tuple

import reference.contracts as C
from sa.analysis import VERSIONS, Analysis, vname
from sa.feval import FevalError, feval
from sa.model import AnalysisError, FunctionInfo, loc, norm_src

from .encode_model import guards_of, inline_locals, parent_map

FORMATS = {"lnotab": False, "linetable": True}


class Item(dict):
    pass


def _call_chain(an, m, f):
    """The module functions applied one inside the other (by first argument) in f's returned expression, innermost first."""
    from .encode_model import inline_locals
    # the returned expression first (locals inlined); then any call expression of the body, so that a driver which keeps its result in a
    # local or a table before returning it is still recognised by the three stages it composes
    cands = [inline_locals(f.node, n.value) for n in ast.walk(f.node) if isinstance(n, ast.Return) and n.value is not None]
    cands += [n for n in ast.walk(f.node) if isinstance(n, ast.Call)]
    best = []
    for e in cands:
        chain = []
        while isinstance(e, ast.Call) and isinstance(e.func, ast.Name) and e.func.id in m.functions and e.args:
            chain.append(m.functions[e.func.id])
            e = e.args[0]
        if len(chain) > (len(best[0]) if best else 0):
            best = (list(reversed(chain)), e)
    return best


def find_stages(an: Analysis):
    """The six stage functions of the line-table codec by their place in the two drivers' call chains:
    decode driver (reads co_lnotab / co_linetable): bytes -> items -> collapsed items -> mapping; encode driver: the reverse."""
    m = an.prog.module("code_data._line_mapping")
    dec = enc = dec_f = enc_f = None
    for f in m.functions.values():
        r = _call_chain(an, m, f)
        if not r or len(r[0]) != 3:
            continue
        chain, inner = r
        if any(isinstance(n, ast.Attribute) and n.attr in ("co_lnotab", "co_linetable") for n in ast.walk(inner)):
            dec, dec_f = chain, f
        elif any(isinstance(n, ast.Name) and n.id in f.params for n in ast.walk(inner)):
            enc, enc_f = chain, f
    if dec is None or enc is None:
        raise AnalysisError(f"line-table codec drivers not recognised (decode chain={dec and [f.name for f in dec]}, encode chain={enc and [f.name for f in enc]})")
    return {"b2i": dec[0], "collapse": dec[1], "to_map": dec[2], "from_map": enc[0], "expand": enc[1], "i2b": enc[2], "decode": dec_f, "encode": enc_f}


def find_codec(an: Analysis):
    st = find_stages(an)
    return st["collapse"], st["expand"], st["b2i"], st["i2b"]


def _receives_line_table(an: Analysis, f: FunctionInfo) -> bool:
    """Is f the function applied to code.co_lnotab / code.co_linetable in the decode closure?"""
    for V in ((3, 9), (3, 10)):
        it, _ = an.interp("from_code", V)
        for (q, ctx), summ in it.summaries.items():
            if q == f.qual:
                for v in summ["args"].values():
                    if any(a[0] == "src" and a[2] and a[2][0][1] in ("co_lnotab", "co_linetable") and len(a[2]) == 1 for a in v):
                        return True
    return False


def run(an: Analysis, rep):
    rep.explanation = (
        "Decides necessary conditions of the line-table codec, per format (lnotab / 3.10 linetable): the format constants, by evaluating the "
        "extracted predicates over the whole value domain the format allows (Objects/lnotab_notes.txt) - merge thresholds = split emissions = "
        "CPython's limits, split-loop coherence / order / shortcuts, the -128 <-> None marker also in continuation entries, (unsigned, signed) "
        "byte pairing; and shape facts of the two mapping stages: the decoded line is a running sum of deltas that a no-line run neither moves "
        "nor resets, the builder takes deltas against the last real line, the lnotab walk cannot end while entries remain, lines are never "
        "tested by truthiness, the first-line shift covers every line. R10.F folds the two drivers of the codec and every stage they call over "
        "witness tables written by a transcription of CPython's own assemblers (3.7/3.8, 3.9, 3.10, and the peephole pass's offset rewriting) - "
        "line steps of +-127/128/129/254/255/300/700, bytecode gaps of 254/256/510/512/1020, both at once, zero-width entries, runs without a "
        "line, entries behind the last instruction - against a transcription of CPython's reader, and requires the table back byte for byte; "
        "R10.A / R10.E fold the encoder's assembly loop and the trailing-entry method. Tables outside the witness set are decided only through "
        "the predicate rules (every entry value, not every sequence)."
    )
    rep.rule("R10.1", "merge thresholds = split emissions = CPython limits, per format", 6)
    rep.rule("R10.2", "each split loop uses one constant for test, emission and decrement", 3)
    rep.rule("R10.3", "-128 <-> None sentinel applied iff linetable", 4)
    rep.rule("R10.4", "byte pairing (unsigned, signed), stride 2", 4)
    format_rules(an, rep)
    from . import line_fold
    rep.run(line_fold.fold_rule, an, rep)
    rep.run(line_fold.raw_tables_rule, an, rep)
    rep.run(line_fold.raw_lnotab_rule, an, rep)
    from . import c02 as _c02d
    from .common import SharedRules as _SR10d
    rep.run(_c02d.r025, an, _SR10d(rep, "R10.D2", "the line of an instruction is looked up under its first code unit and exactly its later code units are taken out of the decoded mapping (shared with C02's R02.5)"))
    rep.run(_c02d.r02f, an, _SR10d(rep, "R10.D", "the decoder's instruction function folded over witness code units (shared with C02's R02.F): it takes the line of every code unit of an instruction out of "
                                                 "the decoded mapping (two prefixes: three units), so nothing is left over that the trailing-entry check would refuse"))
    from .common import SharedRules, purity, truthiness_rule
    from . import c01
    rep.run(purity, an, rep, "R10.P", ["from_code", "to_code"])
    from .common import identity_rule, old_interpreter_rule
    rep.run(identity_rule, an, rep, "R10.I", ["from_code", "to_code"])
    from .common import assert_guard_rule as _agr10
    rep.run(_agr10, an, rep, "R10.G", ["from_code", "to_code"])
    rep.run(old_interpreter_rule, an, rep, "R10.V", ["from_code", "to_code"])
    rep.run(c01.r01a, an, SharedRules(rep, "R10.N", "what the decoder takes out of the decoded line mapping reaches the data on every path (shared with C01's R01.A): entries dropped on the way are missing "
                                                   "when the mapping is rebuilt for re-encoding"), "R01.A", "not dropped")
    rep.run(c01.r017, an, SharedRules(rep, "R10.K", "the mapping handed to the table builder has a key for every code unit it sizes entries from (shared with C01's R01.7): 're-encoding the decoded mapping reproduces the table byte for byte'"))
    rep.run(c01.r015_every_line, an, SharedRules(rep, "R10.O", "the shift by the first line number covers every line of the mapping, the trailing entry included (shared with C01's R01.5)"))
    rep.run(c01.r015_order, an, SharedRules(rep, "R10.O", "the shift by the first line number covers every line of the mapping, the trailing entry included (shared with C01's R01.5)"))
    from . import c03 as _c03a, c11 as _c11a
    rep.run(_c03a.r03y, an, SharedRules(rep, "R10.A", "the encoder rebuilds the mapping the table is written from with every code unit at its instruction's line and the redundant entries at the "
                                                      "instruction's first code unit (shared with C03's R03.Y): 're-encoding the decoded mapping reproduces the table byte for byte'"))
    rep.run(_c11a.r115, an, SharedRules(rep, "R10.E", "the entries CPython wrote behind the last instruction are kept with their line and their redundant pieces (shared with C11's R11.5)"))
    rep.run(truthiness_rule, an, rep, "R10.T", ["from_code", "to_code"], [("Instruction", "line_number"), ("AdditionalLine", "line")])
    rep.assumptions += ["format limits as in Objects/lnotab_notes.txt (reference/contracts.py LINE_LIMITS)"]
    rep.extra["not_decided"] = "sequences of table entries other than the witness tables of R10.F (the predicate rules cover every single entry value, the fold a finite set of sequences)"


def format_rules(an: Analysis, rep):
    collapse, expand, b2i, i2b = find_codec(an)
    for fmt, is_lt in FORMATS.items():
        lim = C.LINE_LIMITS[fmt]
        rep.run(r101, an, rep, collapse, expand, fmt, is_lt, lim)
        rep.run(r102, an, rep, expand, fmt, is_lt, lim)
        rep.run(r103, an, rep, collapse, expand, fmt, is_lt)
    rep.run(r101_body, an, rep, collapse)
    rep.run(r104, an, rep, b2i, i2b)
    rep.run(r102_siblings, an, rep, expand)
    rep.run(r102_order, an, rep, expand)
    rep.run(r102_shortcuts, an, rep, expand)
    rep.run(r103_marker, an, rep, expand)
    rep.run(r105, an, rep)
    rep.run(r106, an, rep)
    rep.run(r107, an, rep)


def _merge_predicates(collapse: FunctionInfo):
    """The If that deletes the current entry: its test is (address split) or (line split)."""
    keep = _item_names(collapse)
    for n in ast.walk(collapse.node):
        if isinstance(n, ast.If) and any(isinstance(b, ast.Delete) for b in n.body):
            t = inline_locals(collapse.node, n.test, keep=keep)
            if isinstance(t, ast.BoolOp) and isinstance(t.op, ast.Or) and len(t.values) == 2:
                return n, t.values
            raise AnalysisError(f"{collapse.qual}: merge condition {norm_src(n.test)} is not `address_split or line_split`")
    raise AnalysisError(f"{collapse.qual}: merge statement (del items[i]) not found")


def _item_names(collapse: FunctionInfo) -> Tuple[str, str]:
    """(current item name, previous item name) from `item = xs[i]; prev = xs[i - 1]`."""
    cur = prev = None
    for n in ast.walk(collapse.node):
        if isinstance(n, ast.Assign) and isinstance(n.targets[0], ast.Name) and isinstance(n.value, ast.Subscript):
            sl = n.value.slice
            if isinstance(sl, ast.Name):
                cur = n.targets[0].id
            elif isinstance(sl, ast.BinOp) and isinstance(sl.op, ast.Sub) and isinstance(sl.right, ast.Constant) and sl.right.value == 1:
                prev = n.targets[0].id
    if not (cur and prev):
        raise AnalysisError(f"{collapse.qual}: current/previous entry variables not recognised")
    return cur, prev


def r101(an, rep, collapse, expand, fmt, is_lt, lim):
    ifn, (p1, p2) = _merge_predicates(collapse)
    cur, prev = _item_names(collapse)
    flagp = collapse.params[1]
    bdom = range(0, lim["max_bytecode"] + 1)
    ldom = range(lim["min_line"], lim["max_line"] + 1)

    from .c02 import module_consts as _mc10
    _consts = {k: v for k, v in _mc10(an, collapse.module.name, (3, 10) if is_lt else (3, 9)).items() if "." not in k and isinstance(v, (int, bool))}

    def ev(pred, cur_item, prev_item):
        try:
            return bool(feval(pred, {**_consts, flagp: is_lt, cur: cur_item, prev: prev_item}))
        except (FevalError, TypeError, KeyError) as ex:
            raise AnalysisError(f"{collapse.qual}: merge predicate not evaluable: {ex}")

    # which disjunct is the address split?  the one that can hold with a line delta of 0 on the carrier and a large address delta
    def address_set(pred):
        out = set()
        for b in bdom:
            # the entry carrying the split-off remainder has line delta 0 on the side the format puts it
            if ev(pred, Item(line_offset=0 if is_lt else 7, bytecode_offset=6), Item(line_offset=7 if is_lt else 0, bytecode_offset=b)):
                out.add(b)
        return out

    def line_set(pred):
        out = set()
        for l in ldom:
            # the remainder of a split delta has the sign of the delta
            if ev(pred, Item(line_offset=5 if l >= 0 else -5, bytecode_offset=6 if is_lt else 0), Item(line_offset=l, bytecode_offset=0 if is_lt else 6)):
                out.add(l)
        return out

    cands = [(address_set(p1), line_set(p1)), (address_set(p2), line_set(p2))]
    Bc = cands[0][0] | cands[1][0]
    Lc = cands[0][1] | cands[1][1]
    # expand side: constants emitted in continuation entries
    consts = _expand_constants(expand, is_lt)
    Be = {consts["max_bytecode"]}
    Le = {127, consts["min_line"]} if "min_line" in consts else set()
    Le = set(consts["line_emits"])
    wantB = {lim["max_bytecode"]}
    wantL = {lim["max_line"], lim["min_line"]}
    w = loc(collapse.module, ifn)
    # the split loops of expand_items are strict (R10.2), so the entry after a continuation entry always carries a non-zero remainder of the
    # split quantity; an entry with a zero remainder is a real (zero-width / same-line) entry and must NOT be merged
    zero_merges = []
    for b in bdom:
        if ev(p1, Item(line_offset=0 if is_lt else 7, bytecode_offset=0), Item(line_offset=7 if is_lt else 0, bytecode_offset=b)) and b in wantB:
            zero_merges.append(f"address delta {b} followed by an entry with address delta 0")
        if ev(p2, Item(line_offset=0 if is_lt else 7, bytecode_offset=0), Item(line_offset=7 if is_lt else 0, bytecode_offset=b)) and b in wantB and cands[1][0]:
            zero_merges.append(f"address delta {b} followed by an entry with address delta 0")
    for l in ldom:
        for pr in (p1, p2):
            if ev(pr, Item(line_offset=0, bytecode_offset=6 if is_lt else 0), Item(line_offset=l, bytecode_offset=0 if is_lt else 6)) and l in wantL:
                zero_merges.append(f"line delta {l} followed by an entry with line delta 0")
    rep.add("R10.1", f"zero-remainder entries are not merged [{fmt}]", not zero_merges, w,
            f"collapse_items merges {sorted(set(zero_merges))[:2]}: expand_items never emits that as a split (its loops are strict, the remainder is non-zero), so a "
            f"real zero entry that CPython's assembler wrote after a full continuation entry is swallowed and the table does not re-encode byte for byte" if zero_merges
            else "an entry with a zero remainder after a boundary entry is kept as an entry of its own", config=fmt)
    # the pieces of a split line delta all have the sign of the delta (assemble_lnotab: `ncodes = ldelta / 127`, the rest has the same sign): an entry of the
    # OPPOSITE sign after a +127 / -128 (-127) entry is an entry of its own (`def f(a=1, b=2,` + 127 newlines + ` c=(3, 4)): pass` gives (0,127)(0,-127))
    wrong_sign = []
    for prev_l, cur_l in ((lim["max_line"], -5), (lim["min_line"], 5)):
        for pr in (p1, p2):
            if ev(pr, Item(line_offset=cur_l, bytecode_offset=6 if is_lt else 0), Item(line_offset=prev_l, bytecode_offset=0 if is_lt else 6)):
                wrong_sign.append((prev_l, cur_l))
    rep.add("R10.1", f"an entry of the opposite sign is not the continuation of a split line delta [{fmt}]", not wrong_sign, w,
            "continuation entries are only recognised with the sign of the entry they continue" if not wrong_sign else
            f"[{fmt}] an entry with line delta {wrong_sign[0][1]} after an entry with line delta {wrong_sign[0][0]} is merged into it as if it continued a split jump; CPython's "
            f"assembler only splits into pieces of one sign, so this is a genuine entry (compiler output: `def f(a=1, b=2,` + 127 newlines + ` c=(3, 4)): pass` has "
            f"co_lnotab (0,127)(0,-127), re-encoded as (0,0))", config=fmt)
    # the line change of a split address delta sits on ONE side (co_linetable: first piece, the rest are (n, 0); co_lnotab: last piece, the first are (255, 0)):
    # a full entry followed by an entry whose zero / non-zero line deltas are the other way round is two entries of the assembler
    # (co_lnotab: address deltas are even, so (255, d != 0) is never written by the assembler and what happens to it is not constrained)
    wrong_side = [b for b in sorted(wantB) for pr in (p1, p2)
                  if is_lt and ev(pr, Item(line_offset=7, bytecode_offset=6), Item(line_offset=0, bytecode_offset=b))]
    if is_lt:
      rep.add("R10.1", f"a full entry is a split piece only with the line delta on the format's side [{fmt}]", not wrong_side, w,
            "(254, 0) followed by (n, d != 0) stays two entries" if not wrong_side else
            f"[{fmt}] the entries ({wrong_side[0]}, 0)(6, +7) are merged: in co_linetable the pieces after the first carry line delta 0, so the second entry starts a new line "
            f"(a source line whose code is exactly 254 bytes - 127 `a;` statements - followed by another line); merged, the line change moves to the start of the run and the table re-encodes differently",
            config=fmt)
    if is_lt:
        # CPython continues a range WITHOUT a line with (rest, -128), a range with a line with (rest, 0): a (n, 0) entry after a full
        # no-line entry starts a new range on the line before the gap
        swallowed = [b for b in sorted(wantB) if any(ev(pr, Item(line_offset=0, bytecode_offset=6), Item(line_offset=None, bytecode_offset=b)) for pr in (p1, p2))]
        rep.add("R10.1", f"a same-line entry after a full no-line entry is not its continuation [{fmt}]", not swallowed, w,
                f"an entry (6, 0) after ({swallowed[0] if swallowed else 254}, no line) is merged into the no-line entry: the instructions it covers get no line although CPython gives "
                f"them the line before the gap (and the table re-encodes as one no-line run)" if swallowed else
                "(n, 0) after (254, no line) stays an entry of its own", config=fmt)
    rep.add("R10.1", f"address delta limit [{fmt}]", Bc == Be == wantB, w,
            f"collapse merges at address delta {sorted(Bc)}, expand emits {sorted(Be)}, CPython's limit is {sorted(wantB)}" if Bc == Be == wantB else
            f"[{fmt}] collapse_items merges a continuation entry when the previous address delta is in {sorted(Bc)} (over the format's domain 0..{lim['max_bytecode']}), "
            f"expand_items emits continuation entries with address delta {sorted(Be)}, and CPython's assembler uses {sorted(wantB)}: a table sitting on the boundary "
            f"does not round-trip byte for byte, or CPython's continuation entries are read as real entries", config=fmt)
    rep.add("R10.1", f"line delta limits [{fmt}]", Lc == Le == wantL, w,
            f"collapse merges at line delta {sorted(Lc)}, expand emits {sorted(Le)}, CPython's limits are {sorted(wantL)}" if Lc == Le == wantL else
            f"[{fmt}] collapse_items merges when the previous line delta is in {sorted(Lc)} (domain {lim['min_line']}..{lim['max_line']}), expand_items emits {sorted(Le)}, "
            f"CPython's assembler splits at {sorted(wantL)}", config=fmt)


def r101_body(an, rep, collapse):
    """What happens when two entries are merged: the statements under the merge test are folded over witness entry pairs - the merged entry carries the sum of both
    address deltas and the sum of both line deltas, whatever their sign (a backward jump split into (-128)(-22) is -150)."""
    from sa.feval import BlockOutcome, FevalError, Obj, ObjEval
    ifn, (p1, p2) = _merge_predicates(collapse)
    cur, prev = _item_names(collapse)
    names = {n.id for b in ifn.body for n in ast.walk(b) if isinstance(n, ast.Name)}
    lists = sorted(n for n in names if n not in (cur, prev) and any(isinstance(x, ast.Delete) and any(isinstance(t, ast.Subscript) and isinstance(t.value, ast.Name) and t.value.id == n
                                                                                                 for t in x.targets) for b in ifn.body for x in ast.walk(b)))
    idx = sorted({t.slice.id for b in ifn.body for x in ast.walk(b) if isinstance(x, ast.Delete) for t in x.targets if isinstance(t, ast.Subscript) and isinstance(t.slice, ast.Name)})
    bad = []
    W = [(127, 5, 0, 4), (-128, -22, 0, 6), (-127, -10, 0, 0), (127, 127, 0, 0), (0, 0, 255, 10), (7, 0, 254, 10), (0, 7, 255, 10), (None, None, 254, 46)]
    for l1, l2, b1, b2 in W:
        ev = ObjEval(lambda name: None, extra={})
        ev.module_assigns = collapse.module.assigns
        pi, ci_ = Obj({"line_offset": l1, "bytecode_offset": b1}), Obj({"line_offset": l2, "bytecode_offset": b2})
        env = {prev: pi, cur: ci_}
        for ln in lists:
            env[ln] = [pi, ci_]
        for ix in idx:
            env[ix] = 1
        try:
            ev.exec(ifn.body, env)
        except BlockOutcome as o:
            bad.append(f"merging ({b1}, {l1}) and ({b2}, {l2}) stops at `{norm_src(o.node)[:50]}`")
            continue
        except (FevalError, KeyError, TypeError, IndexError) as ex:
            raise AnalysisError(f"{collapse.qual}: the statements that merge two entries are not evaluable ({ex})")
        want_l = l1 if not l2 else (l1 + l2)
        want_b = b1 + b2
        got = (pi["bytecode_offset"], pi["line_offset"])
        removed = all(len(env[ln]) == 1 for ln in lists)
        if got != (want_b, want_l) or not removed:
            bad.append(f"merging ({b1}, {l1}) and ({b2}, {l2}) gives {got}" + ("" if removed else " and keeps both entries") + f", expected ({want_b}, {want_l})")
    rep.add("R10.1", f"{collapse.qual}::a merged entry carries the sums of both deltas", not bad, loc(collapse.module, ifn),
            f"{len(W)} witness pairs (forward and backward line splits, address splits, a no-line continuation): the deltas add up and the second entry is removed" if not bad else
            f"{bad[0]}: the pieces of a split delta do not add up again (a call whose arguments span 150 lines jumps back by -150 = (-128)(-22)), so the decoded lines are wrong and the table is "
            f"not reproduced")


def _expand_constants(expand: FunctionInfo, is_lt: bool) -> Dict[str, object]:
    flagp = expand.params[1]
    env: Dict[str, object] = {}
    for name, exprs in getattr(expand.module, "assigns", {}).items():  # module-level integer constants the function may name
        if len(exprs) == 1:
            try:
                v = feval(exprs[0], {})
                if isinstance(v, int):
                    env[name] = v
            except Exception:
                pass
    env[flagp] = is_lt
    for st in expand.node.body:
        if isinstance(st, ast.Assign) and isinstance(st.targets[0], ast.Name):
            try:
                env[st.targets[0].id] = feval(st.value, env)
            except Exception:
                pass
        elif isinstance(st, ast.Assign) and isinstance(st.targets[0], ast.Tuple) and all(isinstance(t, ast.Name) for t in st.targets[0].elts):
            try:
                vals = feval(st.value, env)
                for t, v in zip(st.targets[0].elts, vals):
                    env[t.id] = v
            except Exception:
                pass
    whiles = [n for n in ast.walk(expand.node) if isinstance(n, ast.While)]
    res: Dict[str, object] = {"env": env, "loops": []}
    line_emits = []
    for wl in whiles:
        cmpn = next((c for c in ast.walk(wl.test) if isinstance(c, ast.Compare) and isinstance(c.ops[0], (ast.Gt, ast.Lt, ast.GtE, ast.LtE))), None)
        if cmpn is None:
            raise AnalysisError(f"{expand.qual}: split loop test {norm_src(wl.test)} not recognised")
        var = cmpn.left.id if isinstance(cmpn.left, ast.Name) else None
        try:
            bound = feval(cmpn.comparators[0], env)
        except FevalError as ex:
            raise AnalysisError(f"{expand.qual}: split bound not evaluable: {ex}")
        emit = None
        for c in ast.walk(wl):
            if isinstance(c, ast.Call) and c.keywords:
                for k in c.keywords:
                    if k.arg and var and k.arg == var:
                        emit = k.value
        dec = next((n for n in wl.body if isinstance(n, ast.AugAssign) and isinstance(n.target, ast.Name) and n.target.id == var and isinstance(n.op, ast.Sub)), None)
        if emit is None or dec is None:
            raise AnalysisError(f"{expand.qual}: split loop on `{var}` has no emission / decrement of that variable")
        e2 = dict(env)
        e2[var] = 10 ** 6 if isinstance(cmpn.ops[0], (ast.Gt, ast.GtE)) else -(10 ** 6)
        try:
            emitted = feval(emit, e2)
            decv = feval(dec.value, e2)
        except FevalError as ex:
            raise AnalysisError(f"{expand.qual}: split loop constants not evaluable: {ex}")
        strict = isinstance(cmpn.ops[0], (ast.Gt, ast.Lt))
        res["loops"].append({"var": var, "bound": bound, "emit": emitted, "dec": decv, "strict": strict, "node": wl, "op": type(cmpn.ops[0]).__name__})
        if var and "line" in var:
            line_emits.append(emitted)
        else:
            res["max_bytecode"] = emitted
    res["line_emits"] = line_emits
    if "max_bytecode" not in res:
        raise AnalysisError(f"{expand.qual}: address split loop not recognised")
    return res


def r102(an, rep, expand, fmt, is_lt, lim):
    consts = _expand_constants(expand, is_lt)
    for lp in consts["loops"]:
        ok = lp["bound"] == lp["emit"] == lp["dec"] and lp["strict"]
        rep.add("R10.2", f"{expand.qual}::split loop on {lp['var']} ({lp['op']} {lp['bound']}) [{fmt}]", ok, loc(expand.module, lp["node"]),
                f"while {lp['var']} {'>' if lp['op'].startswith('G') else '<'} {lp['bound']}: emit {lp['emit']}; {lp['var']} -= {lp['dec']}" if ok else
                f"[{fmt}] the split loop tests against {lp['bound']} ({'strict' if lp['strict'] else 'non-strict'}), emits {lp['emit']} and subtracts {lp['dec']}: "
                f"the three must be one constant (strict test), otherwise the emitted deltas do not add up to the original or a zero remainder entry is produced", config=fmt)


def r102_siblings(an, rep, expand):
    """The positive and the negative line split loops are the same code up to the constant and the comparison."""
    import copy
    whiles = [n for n in ast.walk(expand.node) if isinstance(n, ast.While)]
    groups = {}
    for wl in whiles:
        cmpn = next((c for c in ast.walk(wl.test) if isinstance(c, ast.Compare) and isinstance(c.ops[0], (ast.Gt, ast.Lt, ast.GtE, ast.LtE))), None)
        if cmpn is None or not isinstance(cmpn.left, ast.Name):
            continue
        groups.setdefault(cmpn.left.id, []).append((wl, cmpn))

    def shape(wl, cmpn):
        bound = ast.dump(cmpn.comparators[0])

        class Norm(ast.NodeTransformer):
            def generic_visit(self, n):
                if ast.dump(n) == bound:
                    return ast.Name("<BOUND>", ast.Load())
                return super().generic_visit(n)

            def visit_Constant(self, n):
                if ast.dump(n) == bound:
                    return ast.Name("<BOUND>", ast.Load())
                return n
        body = [Norm().visit(copy.deepcopy(st)) for st in wl.body]
        return [ast.dump(st) for st in body]
    n = 0
    for var, loops in groups.items():
        if len(loops) == 2:
            n += 1
            a, b = shape(*loops[0]), shape(*loops[1])
            ok = a == b
            diff = ""
            if not ok:
                only_a = [norm_src(st) for st, d in zip(loops[0][0].body, a) if d not in b]
                only_b = [norm_src(st) for st, d in zip(loops[1][0].body, b) if d not in a]
                diff = f"the loop at line {loops[0][0].lineno} does `{'; '.join(only_a) or '-'}`, the loop at line {loops[1][0].lineno} does `{'; '.join(only_b) or '-'}`"
            rep.add("R10.2", f"{expand.qual}::split loops on {var} are mirror images", ok, loc(expand.module, loops[1][0]),
                    f"both split loops on `{var}` perform the same steps (constant and comparison aside)" if ok else
                    f"the upward and the downward split of `{var}` differ: {diff}: continuation entries of one direction carry a stale address delta / do not reset it, so large "
                    f"jumps in that direction re-encode to different bytes")
    return n


def r102_order(an, rep, expand):
    """Which quantity is split first, per format: lnotab - address then line (assemble_lnotab); linetable - line then address."""
    flagp = expand.params[1]
    kind = {}
    for name, nf in expand.nested.items():
        wl = [n for n in ast.walk(nf.node) if isinstance(n, ast.While)]
        vars_ = set()
        for w_ in wl:
            for c in ast.walk(w_.test):
                if isinstance(c, ast.Compare) and isinstance(c.left, ast.Name):
                    vars_.add(c.left.id)
        if vars_:
            kind[name] = "line" if any("line" in v for v in vars_) else "address"
    if set(kind.values()) != {"line", "address"}:
        raise AnalysisError(f"{expand.qual}: the two split helpers (line / address) not recognised")

    def order(stmts, is_lt):
        out = []
        for st in stmts:
            if isinstance(st, ast.If) and any(isinstance(x, ast.Name) and x.id == flagp for x in ast.walk(st.test)):
                try:
                    tv = bool(feval(st.test, {flagp: is_lt}))
                except FevalError:
                    continue
                out += order(st.body if tv else st.orelse, is_lt)
            elif isinstance(st, ast.Expr) and isinstance(st.value, ast.Call) and isinstance(st.value.func, ast.Name) and st.value.func.id in kind:
                out.append(kind[st.value.func.id])
            elif isinstance(st, ast.For):
                out += order(st.body, is_lt)
        return out
    for fmt, is_lt in FORMATS.items():
        got = order(expand.node.body, is_lt)
        want = ["line", "address"] if is_lt else ["address", "line"]
        rep.add("R10.2", f"{expand.qual}::split order [{fmt}]", got == want, loc(expand.module, expand.node),
                f"{fmt}: the {want[0]} delta is split first, then the {want[1]} delta" if got == want else
                f"[{fmt}] expand_items splits {got}, CPython's assembler for this format splits {want}: an entry that needs both splits at once is emitted in a different order "
                f"than CPython's, so its table does not round-trip byte for byte", config=fmt)


def r103(an, rep, collapse, expand, fmt, is_lt):
    # collapse: the constructor call building the collapsed item from an expanded one
    flagp = collapse.params[1]
    site = None
    for n in ast.walk(collapse.node):
        if isinstance(n, (ast.ListComp, ast.GeneratorExp)) and isinstance(n.elt, ast.Call):
            for k in n.elt.keywords:
                if k.arg == "line_offset":
                    site = (k.value, n.generators[0].target.id if isinstance(n.generators[0].target, ast.Name) else None)
    if site is None:
        raise AnalysisError(f"{collapse.qual}: construction of collapsed items not recognised")
    e, var = site
    bad = []
    for l in (-128, -127, 0, 5, 127):
        try:
            got = feval(e, {flagp: is_lt, var: Item(line_offset=l, bytecode_offset=2)})
        except FevalError as ex:
            raise AnalysisError(f"{collapse.qual}: sentinel expression not evaluable: {ex}")
        want = None if (is_lt and l == -128) else l
        if got != want:
            bad.append(f"line delta {l} -> {got!r}, expected {want!r}")
    rep.add("R10.3", f"{collapse.qual}::-128 means 'no line' iff linetable [{fmt}]", not bad, loc(collapse.module, e),
            "; ".join(bad) if bad else f"`{norm_src(e)}` maps -128 to None exactly under the linetable format", config=fmt)
    # expand: final emission and continuation entries write -128 for None (linetable only has None)
    flage = expand.params[1]
    emits = []
    for n in ast.walk(expand.node):
        if isinstance(n, ast.Call) and n.keywords:
            for k in n.keywords:
                if k.arg == "line_offset" and any(isinstance(x, ast.Constant) and x.value is None for x in ast.walk(k.value)):
                    emits.append(k.value)
    if is_lt:
        okn = len(emits) >= 2
        bad = []
        env0 = _expand_constants(expand, is_lt)["env"]
        for e in emits:
            for l in (None, 0, 7):
                try:
                    got = feval(e, dict(env0, line_offset=l))
                except FevalError as ex:
                    raise AnalysisError(f"{expand.qual}: sentinel emission not evaluable: {ex}")
                want = -128 if l is None else l
                if got != want:
                    bad.append(f"`{norm_src(e)}`: line delta {l!r} -> {got!r}, expected {want!r}")
        rep.add("R10.3", f"{expand.qual}::None is written as -128 [{fmt}]", okn and not bad, loc(expand.module, expand.node),
                "; ".join(bad[:2]) if bad else (f"{len(emits)} emission sites write -128 for 'no line'" if okn else "fewer than 2 emission sites handle None"), config=fmt)
    else:
        rep.add("R10.3", f"{expand.qual}::lnotab never carries None [{fmt}]", True, loc(expand.module, expand.node),
                "collapse never produces None under lnotab (checked above), so the sentinel arm is dead for this format", nontrivial=False, config=fmt)


def r104(an, rep, b2i, i2b):
    p = b2i.params[0]
    comp = next((n for n in ast.walk(b2i.node) if isinstance(n, (ast.ListComp, ast.GeneratorExp))), None)
    if comp is None:
        raise AnalysisError(f"{b2i.qual}: comprehension over the bytes not found")
    g = comp.generators[0]
    try:
        idx = list(feval(g.iter, {p: b"\x00" * 6, "len": len, "range": range}))
    except Exception as ex:
        raise AnalysisError(f"{b2i.qual}: index range not evaluable: {ex}")
    rep.add("R10.4", f"{b2i.qual}::stride 2", idx == [0, 2, 4], loc(b2i.module, comp), f"indices {idx}" if idx == [0, 2, 4] else f"entries are read at indices {idx}, not 0, 2, 4")
    filt = [c for g_ in comp.generators for c in g_.ifs]
    rep.add("R10.4", f"{b2i.qual}::every pair becomes an entry", not filt, loc(b2i.module, comp),
            f"pairs are filtered by `{norm_src(filt[0])}`: CPython's assembler does emit such pairs (e.g. (0, 0) after a line jump that is an exact multiple of the limit), "
            f"dropping them loses entries so the table cannot be re-encoded byte for byte" if filt else "no pair is filtered out")
    iv = g.target.id
    kws = {k.arg: k.value for k in comp.elt.keywords} if isinstance(comp.elt, ast.Call) else {}
    bc, ln = kws.get("bytecode_offset"), kws.get("line_offset")
    ok = False
    detail = "entry construction not recognised"
    if bc is not None and ln is not None:
        sample = bytes([200, 0x80, 3, 0xFF, 255, 0x7F])

        def int_from_bytes(lst, order, signed=False):
            return int.from_bytes(bytes(lst), order, signed=signed)
        from .c02 import module_consts
        try:
            ok = True
            detail = ""
            for V in VERSIONS:
                consts = module_consts(an, b2i.module.name, V)
                got = []
                for i in (0, 2, 4):
                    b_ = feval(bc, {**consts, p: sample, iv: i})
                    # line: int.from_bytes([b[i+1]], 'big', signed=True)  -> evaluate structurally
                    l_ = _eval_signed(ln, p, iv, sample, i, consts)
                    got.append((b_, l_))
                if got != [(200, -128), (3, -1), (255, 127)]:
                    ok = False
                    detail = f"[{vname(V)}] bytes {list(sample)} decode to {got}, expected [(200, -128), (3, -1), (255, 127)] (unsigned address delta, signed line delta: a backward line step 0xFF is -1, not +255)"
                    break
                detail = f"bytes {list(sample)} decode to {got} on every interpreter version"
        except Exception as ex:
            raise AnalysisError(f"{b2i.qual}: entry expressions not evaluable: {ex}")
    rep.add("R10.4", f"{b2i.qual}::(unsigned, signed) pairs", ok, loc(b2i.module, comp), detail)
    # items_to_bytes
    lst = next((n for n in ast.walk(i2b.node) if isinstance(n, ast.List) and len(n.elts) == 2), None)
    if lst is None:
        raise AnalysisError(f"{i2b.qual}: two-element byte list not found")
    names = {n.id for n in ast.walk(lst) if isinstance(n, ast.Name)}
    itname = next(iter(names)) if len(names) == 1 else None
    bad = []
    for b_, l_ in [(200, -128), (3, -1), (255, 127), (0, 0)]:
        try:
            got = [feval(e, {itname: Item(bytecode_offset=b_, line_offset=l_)}) for e in lst.elts]
        except Exception as ex:
            raise AnalysisError(f"{i2b.qual}: byte expressions not evaluable: {ex}")
        want = [b_, l_ & 0xFF]
        if got != want:
            bad.append(f"({b_}, {l_}) -> {got}, expected {want}")
    rep.add("R10.4", f"{i2b.qual}::writes (address, line & 0xFF)", not bad, loc(i2b.module, lst), "; ".join(bad[:2]) if bad else "address delta first, line delta as two's-complement byte")
    rep.add("R10.4", f"{i2b.qual}::flattened in entry order", any(isinstance(n, ast.Attribute) and n.attr == "from_iterable" for n in ast.walk(i2b.node)) or
            any(isinstance(n, (ast.ListComp, ast.GeneratorExp)) and len(n.generators) == 2 for n in ast.walk(i2b.node)), loc(i2b.module, i2b.node),
            "pairs are concatenated in order", nontrivial=False)


def _eval_signed(expr, p, iv, sample, i, consts=None):
    """Evaluate `int.from_bytes([b[i + 1]], "big", signed=True)` or an arithmetic equivalent."""
    consts = consts or {}
    if isinstance(expr, ast.Call) and isinstance(expr.func, ast.Attribute) and expr.func.attr == "from_bytes":
        arg = feval(expr.args[0], {**consts, p: sample, iv: i})
        order = feval(expr.args[1], consts) if len(expr.args) > 1 else "big"
        signed = False
        for k in expr.keywords:
            if k.arg == "signed":
                signed = bool(feval(k.value, consts))
            if k.arg == "byteorder":
                order = feval(k.value, consts)
        return int.from_bytes(bytes(arg), order, signed=signed)
    return feval(expr, {**consts, p: sample, iv: i})


def r105(an, rep):
    """The line an offset gets is the running sum of the line deltas (lnotab_notes.txt: `lineno += line_incr`); nothing but a delta moves it.

    In particular a 3.10 entry with no line (-128) leaves the running line alone: the next entry's delta counts from the line before it."""
    rep.rule("R10.5", "the mapping builder's running line is moved by adding table deltas only", 1)
    st = find_stages(an)
    f = st["to_map"]
    pm = parent_map(f.module)
    params = set(f.params)
    loop_targets = {n.id for lp in ast.walk(f.node) if isinstance(lp, (ast.For, ast.comprehension)) for n in ast.walk(lp.target) if isinstance(n, ast.Name)}
    running = set()
    for n in ast.walk(f.node):
        if isinstance(n, ast.Assign) and isinstance(n.targets[0], ast.Subscript):
            for x in ast.walk(n.value):
                if isinstance(x, ast.Name) and x.id not in params and x.id not in loop_targets:
                    running.add(x.id)
    # keep those that are accumulators: augmented somewhere by something read from an item's line field
    def reads_delta(e):
        return any(isinstance(x, ast.Attribute) and "line" in x.attr for x in ast.walk(e)) or any(
            isinstance(x, ast.Name) and "line" in x.id and x.id not in running for x in ast.walk(e))
    def in_loop(node):
        cur = node
        while id(cur) in pm and pm[id(cur)] is not f.node:
            cur = pm[id(cur)]
            if isinstance(cur, (ast.For, ast.While)):
                return True
        return False

    def reads(e, v):
        return any(isinstance(x, ast.Name) and x.id == v and isinstance(x.ctx, ast.Load) for x in ast.walk(e))

    def arms_of(e):
        if isinstance(e, ast.IfExp):
            return arms_of(e.body) + arms_of(e.orelse)
        return [e]
    # accumulators: running variables whose new value (somewhere in a loop) depends on their old value
    accs = []
    for v in sorted(running):
        for n in ast.walk(f.node):
            if not in_loop(n):
                continue
            if isinstance(n, ast.AugAssign) and isinstance(n.target, ast.Name) and n.target.id == v:
                accs.append(v)
                break
            if isinstance(n, ast.Assign) and any(isinstance(t, ast.Name) and t.id == v for t in n.targets) and reads(n.value, v):
                accs.append(v)
                break
    if not accs:
        raise AnalysisError(f"{f.qual}: running line variable not recognised (candidates {sorted(running)})")
    for v in accs:
        bad = []
        n_upd = 0
        for n in ast.walk(f.node):
            if isinstance(n, ast.AugAssign) and isinstance(n.target, ast.Name) and n.target.id == v:
                n_upd += 1
                if not isinstance(n.op, ast.Add) or not reads_delta(n.value):
                    bad.append((n, n.value))
            elif isinstance(n, ast.Assign) and any(isinstance(t, ast.Name) and t.id == v for t in n.targets) and in_loop(n):
                n_upd += 1
                for arm in arms_of(n.value):
                    if not reads(arm, v):
                        bad.append((n, arm))
        # every entry's delta leaves a record before the next one is added: the innermost loop around an update also stores into a mapping
        # (subscript store / append); a loop that only sums deltas folds several table entries into one record
        for n in ast.walk(f.node):
            if not (isinstance(n, ast.AugAssign) and isinstance(n.target, ast.Name) and n.target.id == v and in_loop(n)):
                continue
            cur = n
            while not isinstance(cur, (ast.For, ast.While)):
                cur = pm[id(cur)]
            records = [x for x in ast.walk(cur) if (isinstance(x, ast.Subscript) and isinstance(x.ctx, ast.Store))
                       or (isinstance(x, ast.Call) and isinstance(x.func, ast.Attribute) and x.func.attr in ("append", "setdefault", "add", "extend", "insert"))]
            hdr = f"for {norm_src(cur.target)} in {norm_src(cur.iter)[:50]}" if isinstance(cur, ast.For) else f"while {norm_src(cur.test)[:60]}"
            rep.add("R10.5", f"{f.qual}::every delta added to {v} leaves a record before the next", bool(records), loc(f.module, n),
                    f"the loop `{hdr}` that adds entry deltas to `{v}` also writes the mapping" if records else
                    f"`{hdr}` adds the line deltas of several table entries to `{v}` and records nothing in between: the entries are folded into one (the co_lnotab entries "
                    f"(4,+1)(0,+1) that the peephole pass leaves behind for removed statements become (4,+2)), so the re-encoded table is not the original")
        rep.add("R10.5", f"{f.qual}::{v} is a running sum of line deltas", not bad, loc(f.module, bad[0][0] if bad else f.node),
                f"`{v}` starts at a constant and every update inside the table loop adds an entry's delta to its previous value ({n_upd} update site(s))" if not bad else
                f"inside the table loop `{v}` is set to `{norm_src(bad[0][1])}`, which does not continue from its previous value (in `{norm_src(bad[0][0])[:70]}`): CPython keeps counting "
                f"from the previous line (an entry without a line does not move it), so every later offset gets a line CPython does not assign")


def r106(an, rep):
    """The walk over a co_lnotab table ends only when every entry has been consumed: entries that lie at or beyond the end of the code
    (the peephole pass removes unreachable statements and leaves their entries there) must reach the mapping, or re-encoding drops them."""
    rep.rule("R10.6", "the lnotab walk cannot end while table entries remain", 1)
    st = find_stages(an)
    f = st["to_map"]
    items = f.params[0]
    # cursor: the name used as the index in items[<cursor>]
    cursors = {n.slice.id for n in ast.walk(f.node) if isinstance(n, ast.Subscript) and isinstance(n.value, ast.Name) and n.value.id == items and isinstance(n.slice, ast.Name)}
    if not cursors:
        raise AnalysisError(f"{f.qual}: no cursor into `{items}` found: how the lnotab table is walked is not recognised")
    loops = [lp for lp in ast.walk(f.node) if isinstance(lp, (ast.While, ast.For)) and any(isinstance(n, ast.Subscript) and isinstance(n.value, ast.Name) and n.value.id == items
                                                                                       and isinstance(n.slice, ast.Name) for n in ast.walk(lp))]
    pm = parent_map(f.module)
    outer = [lp for lp in loops if not any(lp is not o and any(x is lp for x in ast.walk(o)) for o in loops)]
    for lp in outer:
        if isinstance(lp, ast.For):
            raise AnalysisError(f"{f.qual}: the table is walked by `for {norm_src(lp.target)} in {norm_src(lp.iter)[:50]}`: whether its bound covers every entry is arithmetic over the table, not decided")
        disj = lp.test.values if isinstance(lp.test, ast.BoolOp) and isinstance(lp.test.op, ast.Or) else [lp.test]

        def remaining(t):
            return (isinstance(t, ast.Compare) and len(t.ops) == 1 and isinstance(t.ops[0], ast.Lt) and isinstance(t.left, ast.Name) and t.left.id in cursors
                    and isinstance(t.comparators[0], ast.Call) and isinstance(t.comparators[0].func, ast.Name) and t.comparators[0].func.id == "len"
                    and isinstance(t.comparators[0].args[0], ast.Name) and t.comparators[0].args[0].id == items) or \
                   (isinstance(t, ast.Compare) and len(t.ops) == 1 and isinstance(t.ops[0], ast.NotEq) and isinstance(t.left, ast.Name) and t.left.id in cursors
                    and isinstance(t.comparators[0], ast.Call) and getattr(t.comparators[0].func, "id", "") == "len")
        ok = any(remaining(t) for t in disj)
        if not ok:
            # entries handled after the loop?
            body = pm[id(lp)].body if hasattr(pm.get(id(lp)), "body") else []
            after = body[body.index(lp) + 1:] if lp in body else []
            if any(isinstance(x, ast.Name) and x.id in cursors for s_ in after for x in ast.walk(s_)):
                raise AnalysisError(f"{f.qual}: entries left after the walk are handled after the loop: not decided")
        rep.add("R10.6", f"{f.qual}::walk continues while entries remain", ok, loc(f.module, lp),
                f"`{norm_src(lp.test)}` keeps the walk going while `{sorted(cursors)[0]} < len({items})`: on exit every entry has been consumed" if ok else
                f"the walk ends when `{norm_src(lp.test)}` is false, whether or not entries remain: entries at or beyond the end of the code (left by the peephole pass for removed "
                f"statements, e.g. `def f(): return 1; x = 2`) never reach the mapping and are missing from the re-encoded table")


def r106_progress(an, rep, rule="R11.H"):
    """The lnotab walk consumes an entry when a counter that steps through the code reaches the entry's address delta (`==`).  A table whose delta
    the counter steps over (an odd address increment in a hand-altered co_lnotab; the counter moves by one code unit = 2 bytes) is never
    consumed: the loop `while ... or entries remain` does not end.  There must be a way out for the overshoot: `>=` instead of `==`, or a raise under `>`."""
    rep.rule(rule, "the lnotab walk ends for every table (an entry the walk steps over is rejected)", 1)
    st = find_stages(an)
    f = st["to_map"]
    items = f.params[0]
    cursors = {n.slice.id for n in ast.walk(f.node) if isinstance(n, ast.Subscript) and isinstance(n.value, ast.Name) and n.value.id == items and isinstance(n.slice, ast.Name)}
    found = 0
    for lp in ast.walk(f.node):
        if not isinstance(lp, ast.While):
            continue
        for iff in ast.walk(lp):
            if not (isinstance(iff, ast.If) and isinstance(iff.test, ast.Compare) and len(iff.test.ops) == 1 and isinstance(iff.test.ops[0], ast.Eq)):
                continue
            advances = any(isinstance(a, ast.AugAssign) and isinstance(a.target, ast.Name) and a.target.id in cursors for b in iff.body for a in ast.walk(b))
            if not advances:
                continue
            sides = {norm_src(iff.test.left), norm_src(iff.test.comparators[0])}
            found += 1
            # an overshoot exit: a Raise in the same loop under a strict / non-strict order comparison of the same two quantities
            exits = []
            for other in ast.walk(lp):
                if isinstance(other, ast.If) and isinstance(other.test, ast.Compare) and len(other.test.ops) == 1 and isinstance(other.test.ops[0], (ast.Gt, ast.GtE, ast.Lt, ast.LtE)) \
                        and {norm_src(other.test.left), norm_src(other.test.comparators[0])} == sides and any(isinstance(x, ast.Raise) for b in other.body for x in ast.walk(b)):
                    exits.append(other)
            rep.add(rule, f"{f.qual}::an entry the walk steps over ends the walk", bool(exits), loc(f.module, iff),
                    f"`{norm_src(exits[0].test)}` raises when the walk has passed the entry's address without meeting it" if exits else
                    f"an entry is consumed only when `{norm_src(iff.test)}`; the left side moves in steps of one code unit, so an odd address increment (hand-altered `co_lnotab = bytes([1, 1])`) "
                    f"is stepped over, the entry is never consumed and `while {norm_src(lp.test)[:60]}` never ends: from_code neither raises nor returns")
    if not found:
        raise AnalysisError(f"{f.qual}: how the walk decides to consume an entry is not recognised (no `==` test guarding the cursor)")


def r107(an, rep):
    """Encoder mirror of R10.5: a section's line delta is taken against the last section that HAD a line - a run without a line neither
    moves nor resets the reference (CPython's assembler keeps `lineno` across -128 entries)."""
    from .encode_model import guards_of
    rep.rule("R10.7", "the table builder computes line deltas against the last real line (no-line runs do not reset it)", 1)
    st = find_stages(an)
    f = st["from_map"]
    # line variables: loop targets over <mapping>.<dict field>.items()
    linevars = set()
    for lp in ast.walk(f.node):
        if isinstance(lp, ast.For) and isinstance(lp.iter, ast.Call) and isinstance(lp.iter.func, ast.Attribute) and lp.iter.func.attr == "items" \
                and isinstance(lp.target, ast.Tuple) and len(lp.target.elts) == 2 and isinstance(lp.target.elts[1], ast.Name):
            linevars.add(lp.target.elts[1].id)
    subs = [n for n in ast.walk(f.node) if isinstance(n, ast.BinOp) and isinstance(n.op, ast.Sub) and isinstance(n.left, ast.Name) and n.left.id in linevars]
    # only the arm where the line can be None matters: the one whose delta expression sits under / next to an `is None` test of the line variable
    subs = [n for n in subs if any(isinstance(c, ast.Compare) and isinstance(c.ops[0], (ast.Is, ast.IsNot)) and isinstance(c.left, ast.Name) and c.left.id == n.left.id
                                   for g, _ in guards_of(f.module, f, _stmt(f, n)) for c in ast.walk(g)) or _in_none_ifexp(f, n)]
    if not subs:
        raise AnalysisError(f"{f.qual}: no `line - reference` delta under a None test of the line found (linetable arm)")
    for n in subs:
        ref = n.right
        lv = n.left.id
        if not isinstance(ref, ast.Name):
            rep.add("R10.7", f"{f.qual}::delta reference `{norm_src(ref)}`", False, loc(f.module, n),
                    f"the delta is `{norm_src(n)}`: the reference `{norm_src(ref)}` falls back to a constant when the previous section had no line, so the lines after a no-line run "
                    f"restart from the first line instead of continuing from the last real line")
            continue
        bad = []
        for s_ in ast.walk(f.node):
            if isinstance(s_, ast.Assign) and any(isinstance(t, ast.Name) and t.id == ref.id for t in s_.targets):
                v = s_.value
                if isinstance(v, ast.Constant):
                    if _loop_depth(f, s_) > 0:
                        bad.append((s_, "reset to a constant inside the loop"))
                    continue
                if isinstance(v, ast.Name) and v.id in linevars:
                    gs = guards_of(f.module, f, s_)
                    guarded = any(isinstance(c, ast.Compare) and isinstance(c.ops[0], ast.IsNot) and isinstance(c.left, ast.Name) and c.left.id == v.id
                                  and isinstance(c.comparators[0], ast.Constant) and c.comparators[0].value is None for g, pos in gs if pos for c in ast.walk(g))
                    if not guarded:
                        bad.append((s_, f"takes `{v.id}` also when it is None"))
                    continue
                bad.append((s_, f"set to `{norm_src(v)[:40]}`"))
        rep.add("R10.7", f"{f.qual}::reference `{ref.id}` is the last real line", not bad, loc(f.module, bad[0][0] if bad else n),
                f"`{ref.id}` only ever takes a line that is not None" if not bad else
                f"`{norm_src(bad[0][0])[:60]}`: the reference {bad[0][1]}; after a run without a line the next delta is no longer taken against the last real line")


def _stmt(f, node):
    pm = parent_map(f.module)
    cur = node
    while id(cur) in pm and not isinstance(cur, ast.stmt):
        cur = pm[id(cur)]
    return cur


def _in_none_ifexp(f, node):
    pm = parent_map(f.module)
    cur = node
    while id(cur) in pm and not isinstance(cur, ast.stmt):
        cur = pm[id(cur)]
        if isinstance(cur, ast.IfExp) and any(isinstance(c, ast.Compare) and isinstance(c.ops[0], (ast.Is, ast.IsNot)) and isinstance(c.comparators[0], ast.Constant)
                                              and c.comparators[0].value is None for c in ast.walk(cur.test)):
            return True
    return False


def _loop_depth(f, node):
    pm = parent_map(f.module)
    cur, d = node, 0
    while id(cur) in pm and pm[id(cur)] is not f.node:
        cur = pm[id(cur)]
        if isinstance(cur, (ast.For, ast.While)):
            d += 1
    return d


def r102_shortcuts(an, rep, expand):
    """A shortcut that emits an entry without going through the split loops may only take values ONE entry of the format can carry
    (lnotab: line -128..127, address 0..255; linetable: line -127..127 - -128 is the 'no line' marker - address 0..254)."""
    pm = parent_map(expand.module)
    n = 0
    for st in ast.walk(expand.node):
        if not isinstance(st, ast.If):
            continue
        # an If in the per-item loop (not inside the nested split functions) whose body appends an item and leaves the iteration
        cur, nested = st, False
        while id(cur) in pm and pm[id(cur)] is not expand.node:
            cur = pm[id(cur)]
            if isinstance(cur, (ast.FunctionDef, ast.While)):
                nested = True
        if nested:
            continue
        appends = [c for b in st.body for c in ast.walk(b) if isinstance(c, ast.Call) and isinstance(c.func, ast.Attribute) and c.func.attr == "append"]
        leaves = any(isinstance(b, (ast.Continue, ast.Return)) for b in st.body)
        if not appends or not leaves:
            continue
        n += 1
        for fmt, is_lt in FORMATS.items():
            lim = C.LINE_LIMITS[fmt]
            consts = _expand_constants(expand, is_lt)
            env0 = dict(consts["env"])
            names = sorted({x.id for x in ast.walk(st.test) if isinstance(x, ast.Name)} - set(env0))
            lvar = next((v for v in names if "line" in v), None)
            bvar = next((v for v in names if "byte" in v or "addr" in v), None)
            if lvar is None:
                raise AnalysisError(f"{expand.qual}: shortcut `{norm_src(st.test)[:60]}` does not test a line delta")
            bad = []
            try:
                for lv in list(range(-300, 301)):
                    for bv in ((0, 1, 254, 255, 256, 600) if bvar else (0,)):
                        e = dict(env0)
                        e[lvar] = lv
                        if bvar:
                            e[bvar] = bv
                        if feval(st.test, e):
                            if not (lim["min_line"] <= lv <= lim["max_line"]) or (bvar and bv > lim["max_bytecode"]):
                                bad.append((lv, bv))
            except FevalError as ex:
                raise AnalysisError(f"{expand.qual}: shortcut test `{norm_src(st.test)[:60]}` not evaluable: {ex}")
            rep.add("R10.2", f"{expand.qual}::shortcut `{norm_src(st.test)[:40]}` stays within one entry [{fmt}]", not bad, loc(expand.module, st),
                    f"taken only for line deltas in [{lim['min_line']}, {lim['max_line']}] and address deltas up to {lim['max_bytecode']}" if not bad else
                    f"[{fmt}] the shortcut is taken for (line delta, address delta) = {bad[0]}: one entry of this format cannot carry it"
                    + (" (-128 is the 'no line' marker of co_linetable: CPython splits a jump of exactly -128 lines into (-127, -1))" if bad[0][0] == -128 else ""), config=fmt)
    rep.add("R10.2", f"{expand.qual}::shortcuts around the split loops examined", True, loc(expand.module, expand.node), f"{n} early emission(s)", nontrivial=False)


def r103_marker(an, rep, expand):
    """A run without a line that is split over several entries keeps the 'no line' marker in EVERY entry (CPython 3.10 assemble_line_range:
    `ldelta = a->a_lineno < 0 ? -128 : 0` after a continuation entry): the carried line delta may be overwritten by a number only when
    it is known not to be None."""
    from .encode_model import guards_of
    pm = parent_map(expand.module)
    # the carried line-delta variable: assigned from <item>.line_offset at the top of the per-item loop
    lvars = {n.targets[0].id for n in ast.walk(expand.node) if isinstance(n, ast.Assign) and isinstance(n.targets[0], ast.Name) and isinstance(n.value, ast.Attribute) and "line" in n.value.attr}
    if not lvars:
        raise AnalysisError(f"{expand.qual}: carried line delta not recognised")
    n = 0
    for st in ast.walk(expand.node):
        if not (isinstance(st, ast.Assign) and isinstance(st.targets[0], ast.Name) and st.targets[0].id in lvars and isinstance(st.value, ast.Constant) and st.value.value is not None):
            continue
        n += 1
        v = st.targets[0].id

        def is_notnone(t):
            return any(isinstance(c, ast.Compare) and len(c.ops) == 1 and isinstance(c.ops[0], ast.IsNot) and isinstance(c.left, ast.Name) and c.left.id == v
                       and isinstance(c.comparators[0], ast.Constant) and c.comparators[0].value is None for c in ast.walk(t))
        guarded = False
        cur = st
        while id(cur) in pm and pm[id(cur)] is not expand.node:
            par = pm[id(cur)]
            if isinstance(par, ast.If) and any(cur is b for b in par.body) and is_notnone(par.test):
                guarded = True
            if isinstance(par, ast.While) and is_notnone(par.test):
                guarded = True
            cur = par
        rep.add("R10.3", f"{expand.qual}::`{norm_src(st)}` keeps the no-line marker", guarded, loc(expand.module, st),
                f"only reached when `{v} is not None`" if guarded else
                f"`{norm_src(st)}` overwrites the carried line delta also when it is None ('no line'): after the first continuation entry of a run without a line the remaining "
                f"entries are written with a line delta of 0 instead of -128 - a no-line run of more than 254 bytes re-encodes as (254, -128)(rest, 0), i.e. with the previous line",
                config="linetable")
    rep.add("R10.3", f"{expand.qual}::overwrites of the carried line delta examined", True, loc(expand.module, expand.node), f"{n} constant store(s)", nontrivial=False)
