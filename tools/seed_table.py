#!/usr/bin/env python3
"""Regenerates DESIGN.md section 11 (table of seeded changes and the rules that catch them) from seeded/*/meta.json."""
import json, os, re
V = os.path.dirname(os.path.dirname(os.path.abspath(__file__)))
rows = []
for sid in sorted(os.listdir(os.path.join(V, "seeded"))):
    p = os.path.join(V, "seeded", sid, "meta.json")
    if not os.path.exists(p):
        continue
    m = json.load(open(p))
    note = ""
    np_ = os.path.join(V, "seeded", sid, "note.md")
    if os.path.exists(np_):
        txt = [l.strip() for l in open(np_).read().splitlines() if l.strip() and not l.startswith("#")]
        note = " ".join(txt)[:230].replace("|", "/")
    res = m.get("check_result_at_commit", {})
    keys = re.findall(r"'(R\d\d\.[0-9A-Z]+)[:\]]", res.get("findings", "")) or re.findall(r"\"(R\d\d\.[0-9A-Z]+)[:\]]", res.get("findings", ""))
    rows.append((sid, m["property"], m.get("round", 1), note, res.get("status", "?"), ", ".join(sorted(set(keys)))))
caught = sum(1 for r in rows if r[4] == "CAUGHT")
out = ["## 11. Seeded changes written by independent sub-agents, and which rules catch them", "",
       "Each change was written by a fresh sub-agent that saw only the text of one property and a scratch worktree of /repo (nothing from /verif), in seven rounds "
       "(each later round was told which ideas the earlier rounds had used and asked for different ones). Every change kept here was confirmed by `tools/verify_seed.py` in the scratch "
       "worktree: the patch applies to /repo's HEAD of that time, the 30 baseline tests still pass, and the demonstration fails with the change and passes without it on at least one of "
       "the interpreters 3.7-3.10 (3.12 for the JSON-only ones). `tools/seeded.py` applies each patch to a scratch copy (never to /repo) and runs the quick check of the "
       "property it targets (`--record` stores the outcome in meta.json; `--transform=unparse|rename|black60` re-formats the changed tree first). Seeds whose patch stopped applying "
       "after a later `fix:` commit were re-applied onto the new tree and their demonstrations re-run (`rebased` in meta.json, the original kept as patch.orig.diff).", "",
       f"Result at the last commit that touched the rules: **{caught} of {len(rows)}** changes make the check of *their own* property exit 1 with a finding naming the changed construct; "
       "the others end in exit 2 ('not decided'), none passes silently. "
       "History: round 1 - after the first evaluation 16 of 36 were caught by their own check (30 of 45 by some check); round 2 started at 11 of 30; round 3 at 14 of 48 "
       "(22 by some check, 8 more at exit 2); round 4 at 12 of 48 (30 by some check, 7 more at exit 2); round 5 at 21 of 48; round 6 at 15 of 48; round 7 at 27 of 48. The misses drove most of the rule additions listed in section 0a. "
       "Not decided, on purpose or for lack of a sound rule:", "",
       "* C10-7, C10-8 - arithmetic of the table stages over integer sequences (`collapse_items` rewritten as a forward pass whose 'previous entry' is the already merged one; the lnotab "
       "walk turned into a `for` over `range(0, max(max_offset, sum(...)), 2)`): exit 2 - whether the bound / the merged entry is right needs symbolic execution of loops over tables.",
       "* C13-9, C02-10 - the target index found by `bisect_left` over a *part* of the sorted target list: exit 2 - whether the part always contains the target is a loop invariant.",
       "* C06-6 - the None-pin decision moved into a pre-scan of `blocks[0]` only: exit 2 (guard calls a helper with a loop; not evaluable).",
       "* C13-14 - block numbers from `itertools.accumulate` over a bytearray of marks, zipped with the instructions: exit 2 (the block-building loop is not the recognised one; "
       "whether the running count indexes the right block is arithmetic over two sequences).",
       "* C02-15 - a new `raise` in the decoder for relative jumps with `target <= next_offset` (JUMP_FORWARD 0 is compiler output): exit 2 from R02.R - every place where from_code can stop "
       "is one confirmed by reading; whether valid input reaches a new one is not decided.",
       "* C04-17, C15-18 (and C02-15) - new `raise` statements on valid input (more than 255 parameters; an instruction of four code units in a JSON document): exit 2 from the rejection-path "
       "rules R04.R / R07.R.  C04-18 - the non-function arm asserts on co_varnames / co_cellvars: exit 2 (the flag fold cannot evaluate attributes of the code object).",
       "* C02-17 - the parser's unit counter replaced by the size function of the operand: exit 2 (the counter of code units is not recognised; R02.8 is not reached).",
       "* C08-17 - a hash cached in `__dict__` (pickle carries the seed-dependent number): exit 2 (hash idiom not recognised).  C14-17 - duplicate detection keyed by id() for code objects: "
       "exit 2 (the table methods are not evaluable on the witness sequences).",
       "* C04-21, C06-19, C14-21 - the decoder's ArgsInput construction moved into a classmethod, the relative-jump base changed on both sides at once, `__iter__` split into a per-block helper: "
       "exit 2 (the recognisers of R04.1 / R02.3 / R14.4 do not find their anchor).",
       "* C14-7 - `__iter__` re-derives the constants table with its own rank model: exit 2 ('the nested code objects reach the yield through `constants_table(...)`, not by walking "
       "self's blocks directly').", "",
       "| id | round | what the change does (from the sub-agent's note) | own check | rules that fire |", "|---|---|---|---|---|"]
for sid, pid, rnd, note, st, keys in rows:
    out.append(f"| {sid} | {rnd} | {note} | {st} | {keys} |")
text = "\n".join(out) + "\n"
p = os.path.join(V, "DESIGN.md")
s = open(p).read()
i = s.find("## 11. Seeded changes written by independent sub-agents")
if i >= 0:
    s = s[:i].rstrip() + "\n\n" + text
else:
    s = s.rstrip() + "\n\n---------------------------------------------------------------------------------\n\n" + text
open(p, "w").write(s)
print(caught, len(rows))
