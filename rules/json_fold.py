"""R07.W - the JSON decoder folded over witness documents.

The functions that turn a JSON document into data (code_data_from_json and what it calls) are folded by `sa.feval.ObjEval` over two hand-written witness
documents that use every tagged form the format has, in every position where it can occur (an Args member as list / name / tagged name, an empty docstring,
a float beyond 2**53, a nested code object with a position override, ...).  The expected data is written down next to each document; the comparison is type-
and sign-exact (1e16 is a float, -0.0 keeps its sign, every NaN is a NaN, tuples are tuples).  Fields at their declared default are ignored on both sides.
"""
from __future__ import annotations

import ast
import base64
import math

from sa.analysis import Analysis
from sa.feval import BlockOutcome, FevalError, Obj, ObjEval
from sa.model import AnalysisError, loc, norm_src

from .common import data_classes
from .json_model import find_json_functions
from .normalize_model import NOFOLD, field_default


def E(cls, **kw):
    return Obj({"__cls__": cls, **kw})


NAN = float("nan")
INNER_DOC = {"blocks": [[{"name": "RETURN_VALUE"}]], "filename": "f", "first_line_number": 1, "name": "g", "stacksize": 1,
             "type": {"args": {"positional_only": ["a"], "positional_or_keyword": ["b", {"string": "'\\ud801'"}], "var_positional": {"string": "'\\ud800'"},
                               "keyword_only": ["k"], "var_keyword": "kw"}, "docstring": "", "type": "GENERATOR"}}
# `def h(): pass` / `lambda: 0`: every field of its Function equals the default, so the document says "type": {} - an empty object, which is not "no type"
PLAIN_DOC = {"blocks": [[{"name": "RETURN_VALUE"}]], "filename": "f", "first_line_number": 1, "name": "h", "stacksize": 1, "type": {}}
PLAIN_EXP = E("CodeData", blocks=((E("Instruction", name="RETURN_VALUE"),),), filename="f", first_line_number=1, name="h", stacksize=1, type=E("Function"))
INNER_EXP = E("CodeData", blocks=((E("Instruction", name="RETURN_VALUE"),),), filename="f", first_line_number=1, name="g", stacksize=1,
              type=E("Function", args=E("Args", positional_only=("a",), positional_or_keyword=("b", "\ud801"), var_positional="\ud800", keyword_only=("k",), var_keyword="kw"),
                     docstring="", type="GENERATOR"))
INNER2_DOC = {"blocks": [[{"name": "RETURN_VALUE", "line_number": 0}]], "filename": "f", "first_line_number": 1, "name": "h", "stacksize": 1,
              "type": {"docstring": {"string": "'d\\ud800'"}, "args": {"var_keyword": {"string": "'\\udc00'"}}}}
INNER2_EXP = E("CodeData", blocks=((E("Instruction", name="RETURN_VALUE", line_number=0),),), filename="f", first_line_number=1, name="h", stacksize=1,
               type=E("Function", docstring="d\ud800", args=E("Args", var_keyword="\udc00")))
OUTER_DOC = {
    "blocks": [[
        {"name": "LOAD_CONST", "arg": {"constant": 1e16}, "line_number": 1},
        {"name": "LOAD_CONST", "arg": {"constant": {"float": "nan"}, "_index_override": 2}},
        {"name": "LOAD_CONST", "arg": {"constant": [1e300, [-0.0, {"int": "-9007199254740993"}], {"bytes": "AP8="}, {"type": "ellipsis"}, {"real": {"float": "-inf"}, "imag": -0.0}, True, None]}},
        {"name": "LOAD_CONST", "arg": {"constant": {"frozenset": [1, "a", [2.0]]}}},
        {"name": "LOAD_CONST", "arg": {"constant": {"frozenset": [{"float": "nan"}, {"float": "nan"}, 7]}}},
        {"name": "LOAD_CONST", "arg": {"constant": {"string": "'\\ud800 x'"}, "_index_override": 0}},
        {"name": "LOAD_NAME", "arg": {"name": {"string": "'\\ud800'"}, "_index_override": 0}},
        {"name": "LOAD_FAST", "arg": {"varname": "x"}},
        {"name": "LOAD_FAST", "arg": {"varname": "substring"}}, {"name": "LOAD_NAME", "arg": {"name": "to_string_int"}}, {"name": "LOAD_CONST", "arg": {"constant": "string"}},
        {"name": "LOAD_DEREF", "arg": {"freevar": "fv"}},
        {"name": "LOAD_CLOSURE", "arg": {"cellvar": "cv", "_index_override": 1}},
        {"name": "JUMP_FORWARD", "arg": {"target": 1, "relative": True}, "_n_args_override": 4},
        {"name": "BUILD_TUPLE", "arg": 3},
        {"name": "BUILD_TUPLE", "arg": {"int": "2333404614517418098688"}},
        {"name": "NOP", "arg": {"_arg": 7}, "_line_offsets_override": [1, -1]},
        {"name": "LOAD_CONST", "arg": {"constant": INNER_DOC, "_index_override": 5}}],
        [{"name": "RETURN_VALUE"}]],
    "filename": {"string": "'f\\udc80.py'"}, "first_line_number": 3, "name": "<module>", "stacksize": 2, "freevars": ["fv", {"string": "'\\ud800'"}],
    "future_annotations": True, "_nested": True,
    "_additional_args": [{"constant": None}, {"name": "unused"}, {"constant": INNER2_DOC}, {"constant": 2e22, "_index_override": 9}],
    "_additional_line": {"line": 9, "additional_offsets": [1, 2]},
}
OUTER_EXP = E("CodeData", blocks=((
    E("Instruction", name="LOAD_CONST", arg=E("Constant", constant=1e16), line_number=1),
    E("Instruction", name="LOAD_CONST", arg=E("Constant", constant=NAN, _index_override=2)),
    E("Instruction", name="LOAD_CONST", arg=E("Constant", constant=(1e300, (-0.0, -9007199254740993), b"\x00\xff", Ellipsis, complex(float("-inf"), -0.0), True, None))),
    E("Instruction", name="LOAD_CONST", arg=E("Constant", constant=frozenset([1, "a", (2.0,)]))),
    # two NaN objects are two members of a set (nan != nan): `x in {nan, nan', 7}` has three elements in CPython's constant, and so has the document
    E("Instruction", name="LOAD_CONST", arg=E("Constant", constant=frozenset([float("nan"), float("nan"), 7]))),
    E("Instruction", name="LOAD_CONST", arg=E("Constant", constant="\ud800 x", _index_override=0)),
    E("Instruction", name="LOAD_NAME", arg=E("Name", name="\ud800", _index_override=0)),
    E("Instruction", name="LOAD_FAST", arg=E("Varname", varname="x")),
    E("Instruction", name="LOAD_FAST", arg=E("Varname", varname="substring")), E("Instruction", name="LOAD_NAME", arg=E("Name", name="to_string_int")),
    E("Instruction", name="LOAD_CONST", arg=E("Constant", constant="string")),
    E("Instruction", name="LOAD_DEREF", arg=E("Freevar", freevar="fv")),
    E("Instruction", name="LOAD_CLOSURE", arg=E("Cellvar", cellvar="cv", _index_override=1)),
    E("Instruction", name="JUMP_FORWARD", arg=E("Jump", target=1, relative=True), _n_args_override=4),
    E("Instruction", name="BUILD_TUPLE", arg=3),
    E("Instruction", name="BUILD_TUPLE", arg=2333404614517418098688),
    E("Instruction", name="NOP", arg=E("NoArg", _arg=7), _line_offsets_override=(1, -1)),
    E("Instruction", name="LOAD_CONST", arg=E("Constant", constant=INNER_EXP, _index_override=5))),
    (E("Instruction", name="RETURN_VALUE"),)),
    filename="f\udc80.py", first_line_number=3, name="<module>", stacksize=2, freevars=("fv", "\ud800"), future_annotations=True, _nested=True,
    _additional_args=(E("Constant", constant=None), E("Name", name="unused"), E("Constant", constant=INNER2_EXP), E("Constant", constant=2e22, _index_override=9)),
    _additional_line=E("AdditionalLine", line=9, additional_offsets=(1, 2)))


def _same(a, b, defaults, path=""):
    """None if equal (type-, sign- and shape-exact), else a description of the first difference."""
    if isinstance(a, Obj) or isinstance(b, Obj):
        if not (isinstance(a, Obj) and isinstance(b, Obj)):
            return f"{path}: {_show(a)} instead of {_show(b)}"
        if a.get("__cls__") != b.get("__cls__"):
            return f"{path}: a {a.get('__cls__')} instead of a {b.get('__cls__')}"
        d = defaults.get(a.get("__cls__"), {})
        for k in sorted((set(a) | set(b)) - {"__cls__"}):
            missing = object()
            va = a.get(k, d.get(k, missing))
            vb = b.get(k, d.get(k, missing))
            if va is missing or vb is missing:
                return f"{path}.{k}: {'missing' if va is missing else _show(va)} instead of {_show(vb) if vb is not missing else 'nothing'}"
            r = _same(va, vb, defaults, f"{path}.{k}")
            if r:
                return r
        return None
    if type(a) is not type(b):
        return f"{path}: {_show(a)} ({type(a).__name__}) instead of {_show(b)} ({type(b).__name__})"
    if isinstance(a, float):
        if math.isnan(a) or math.isnan(b):
            return None if math.isnan(a) and math.isnan(b) else f"{path}: {a!r} instead of {b!r}"
        return None if (a == b and math.copysign(1, a) == math.copysign(1, b)) else f"{path}: {a!r} instead of {b!r}"
    if isinstance(a, complex):
        return _same(a.real, b.real, defaults, path + ".real") or _same(a.imag, b.imag, defaults, path + ".imag")
    if isinstance(a, tuple):
        if len(a) != len(b):
            return f"{path}: {len(a)} element(s) instead of {len(b)}"
        for i, (x, y) in enumerate(zip(a, b)):
            r = _same(x, y, defaults, f"{path}[{i}]")
            if r:
                return r
        return None
    if isinstance(a, frozenset):
        if len(a) != len(b):
            return f"{path}: a frozenset of {len(a)} instead of {len(b)}"
        for x in a:
            if not any(_same(x, y, defaults, path) is None for y in b):
                return f"{path}: member {_show(x)} is not expected"
        return None
    return None if a == b else f"{path}: {_show(a)} instead of {_show(b)}"


def _show(v):
    if isinstance(v, Obj):
        return f"{v.get('__cls__')}(...)"
    r = ascii(v)
    return r if len(r) < 60 else r[:57] + "..."


def fold_rule(an: Analysis, rep, rule="R07.W", foreign_documents=False):
    rep.rule(rule, "the JSON decoder folded over witness documents gives the data the documents describe (type-, sign- and shape-exact)", 2)
    enc, cdec = find_json_functions(an)
    m = cdec.module
    top = None
    for f in an.closure("from_json"):
        if f.module is m and f.cls is None and len(f.params) == 1 and any(isinstance(c, ast.Call) and isinstance(c.func, ast.Name) and c.func.id == "CodeData" for c in ast.walk(f.node)):
            top = f
    if top is None:
        raise AnalysisError("the function that builds a CodeData from a JSON object was not found")
    dcs = data_classes(an)
    defaults = {}
    for ci in dcs:
        dd = {}
        for fl in ci.fields:
            if fl.has_default:
                d = field_default(fl)
                if d is not NOFOLD:
                    dd[fl.name] = E(d[1]) if isinstance(d, tuple) and len(d) == 2 and d[0] == "<all-defaults>" else d
        defaults[ci.name] = dd

    def ctor(ci):
        names = [fl.name for fl in ci.fields]

        def make(*a, **kw):
            if len(a) > len(names):
                raise FevalError("too many positional arguments")
            kw = dict(zip(names, a), **kw)
            unknown = set(kw) - set(names)
            if unknown:
                raise BlockOutcome("raise", ast.parse(f"TypeError('unexpected keyword {sorted(unknown)[0]} for {ci.name}')").body[0])
            return Obj({"__cls__": ci.name, **kw})
        return make

    def resolve(name):
        r = an.prog.resolve_global(m, name, top)
        return r[1].node if r and r[0] == "func" else None
    extra = {ci.name: ctor(ci) for ci in dcs}
    extra.update(stdlib_names(m))
    extra.update({"copy": lambda x: dict(x) if isinstance(x, dict) else list(x), "literal_eval": ast.literal_eval, "b64decode": base64.b64decode,
                  "urlsafe_b64decode": base64.urlsafe_b64decode, "isnan": math.isnan, "isinf": math.isinf, "NotImplementedError": NotImplementedError, "ValueError": ValueError})
    import copy as _copy
    for name, doc, exp in (("a function with every kind of parameter, an empty docstring and a tagged name", INNER_DOC, INNER_EXP),
                           ("a function without parameters, docstring or kind (its type is the empty object)", PLAIN_DOC, PLAIN_EXP),
                           ("a module with every operand kind, every tagged constant, a nested code object with a position override, unreferenced entries and a trailing line", OUTER_DOC, OUTER_EXP)):
        ev = ObjEval(resolve, extra=extra)
        ev.module_assigns = m.assigns
        ev.MAX_ITER = 256
        try:
            got = ev.call_method(top.node, _copy.deepcopy(doc))
            why = _same(got, exp, defaults, "data")
        except BlockOutcome as o:
            why = f"the decoder stops at `{norm_src(o.node)[:70]}`"
        except (SyntaxError, ValueError, ArithmeticError, __import__("re").error) as ex:  # raised by a builtin the decoder applied to the witness (literal_eval, int, b64decode, re ...)
            why = f"the decoder raises {type(ex).__name__}: {str(ex)[:60]}"
        except Exception as ex:  # noqa: BLE001 - a gap of the evaluator, never a verdict
            raise AnalysisError(f"{top.qual}: the decoder is not evaluable on the witness document ({type(ex).__name__}: {ex})")
        rep.add(rule, f"{top.qual}::witness document: {name.split(',')[0]}", why is None, loc(m, top.node),
                f"{name}: decoded as written" if why is None else
                f"on the witness document ({name}) the decoder gives {why} - the document to_json_data writes for such data does not load back to it")


    if not foreign_documents:
        return  # (the documents the library writes itself never hold a float where an int belongs: only C08 speaks about every JSON-loaded CodeData)
    # JSON does not tell 1 from 1.0 and the schema's "integer" accepts both: a document that writes the integer members as 1.0 (json.dumps of a float, a
    # producer that keeps all numbers as doubles) is valid; the data loaded from it must hold ints there - or the loader refuses - while a float constant stays a float
    FDOC = {"blocks": [[{"name": "LOAD_CONST", "arg": {"constant": 2.0, "_index_override": 1.0}, "line_number": 3.0, "_n_args_override": 2.0, "_line_offsets_override": [1.0]},
                        {"name": "JUMP_FORWARD", "arg": {"target": 1.0, "relative": True}}], [{"name": "RETURN_VALUE"}]],
            "filename": "f", "first_line_number": 1.0, "name": "m", "stacksize": 1.0, "_additional_line": {"line": 2.0, "additional_offsets": [1.0]}}
    FEXP = E("CodeData", blocks=((E("Instruction", name="LOAD_CONST", arg=E("Constant", constant=2.0, _index_override=1), line_number=3, _n_args_override=2, _line_offsets_override=(1,)),
                                  E("Instruction", name="JUMP_FORWARD", arg=E("Jump", target=1, relative=True))), (E("Instruction", name="RETURN_VALUE"),)),
             filename="f", first_line_number=1, name="m", stacksize=1, _additional_line=E("AdditionalLine", line=2, additional_offsets=(1,)))
    ev = ObjEval(resolve, extra=extra)
    ev.module_assigns = m.assigns
    ev.MAX_ITER = 256
    try:
        got = ev.call_method(top.node, _copy.deepcopy(FDOC))
        why = _same(got, FEXP, defaults, "data")
    except (BlockOutcome, ValueError):
        why = None  # refused: nothing is loaded that could compare equal to the int version
    except Exception as ex:  # noqa: BLE001 - a gap of the evaluator, never a verdict
        raise AnalysisError(f"{top.qual}: the decoder is not evaluable on the witness document with integers written as floats ({type(ex).__name__}: {ex})")
    rep.add(rule, f"{top.qual}::witness document: integers written as floats", why is None, loc(m, top.node),
            "integral floats in integer positions are converted (or refused); the float constant stays a float" if why is None else
            f"a schema-valid document that writes its integer members as 1.0 loads with {why}: the data compares equal to (and hashes like) the one loaded from the same document with ints - "
            f"1 == 1.0 - but to_code() of it raises TypeError, and it is written back as another document")


PURE_STDLIB = ("base64", "binascii", "math", "re", "string", "cmath")


def stdlib_names(m):
    """Real objects for the names a module imports from side-effect-free stdlib modules (`from base64 import b64decode`, `import re`)."""
    import importlib
    out = {}
    for st in m.tree.body:
        if isinstance(st, ast.ImportFrom) and st.module in PURE_STDLIB and st.level == 0:
            mod = importlib.import_module(st.module)
            for a in st.names:
                if hasattr(mod, a.name):
                    out[a.asname or a.name] = getattr(mod, a.name)
        elif isinstance(st, ast.Import):
            for a in st.names:
                if a.name in PURE_STDLIB:
                    mod = importlib.import_module(a.name)
                    out[a.asname or a.name] = {n: getattr(mod, n) for n in dir(mod) if not n.startswith("_")}
        elif isinstance(st, ast.ImportFrom) and st.module == "ast" and st.level == 0:
            for a in st.names:
                if a.name == "literal_eval":
                    out[a.asname or a.name] = ast.literal_eval
    return out


def _fill(obj, dcs_by_name, defaults):
    """A complete instance: every field the witness leaves out gets its declared default (default_factory classes are instantiated)."""
    if isinstance(obj, Obj):
        ci = dcs_by_name[obj["__cls__"]]
        out = Obj({"__cls__": obj["__cls__"]})
        for fl in ci.fields:
            if fl.name in obj:
                out[fl.name] = _fill(obj[fl.name], dcs_by_name, defaults)
            elif fl.name in defaults[ci.name]:
                out[fl.name] = _fill(defaults[ci.name][fl.name], dcs_by_name, defaults)
            else:
                raise AnalysisError(f"witness data leaves out {ci.name}.{fl.name}, which has no default")
        return out
    if isinstance(obj, tuple):
        return tuple(_fill(x, dcs_by_name, defaults) for x in obj)
    return obj


def _doc_same(a, b, path="document"):
    """JSON documents equal up to the listing order of frozenset members; numbers type- and sign-exact."""
    if type(a) is not type(b):
        return f"{path}: {_show(a)} ({type(a).__name__}) instead of {_show(b)} ({type(b).__name__})"
    if isinstance(a, dict):
        if set(a) != set(b):
            return f"{path}: keys {sorted(a)} instead of {sorted(b)}"
        for k in a:
            if k == "frozenset" and isinstance(a[k], list) and isinstance(b[k], list):
                if len(a[k]) != len(b[k]):
                    return f"{path}.frozenset: {len(a[k])} member(s) instead of {len(b[k])}"
                rest = list(b[k])
                for x in a[k]:
                    hit = next((i for i, y in enumerate(rest) if _doc_same(x, y) is None), None)
                    if hit is None:
                        return f"{path}.frozenset: member {_show(x)} is not expected"
                    rest.pop(hit)
                continue
            r = _doc_same(a[k], b[k], f"{path}.{k}")
            if r:
                return r
        return None
    if isinstance(a, list):
        if len(a) != len(b):
            return f"{path}: {len(a)} element(s) instead of {len(b)}"
        for i, (x, y) in enumerate(zip(a, b)):
            r = _doc_same(x, y, f"{path}[{i}]")
            if r:
                return r
        return None
    if isinstance(a, float):
        return None if (a == b and math.copysign(1, a) == math.copysign(1, b)) else f"{path}: {a!r} instead of {b!r}"
    return None if a == b else f"{path}: {_show(a)} instead of {_show(b)}"


def encode_fold_rule(an: Analysis, rep, rule="R07.V"):
    """The mirror of fold_rule: the encoder folded over the witness data must give the witness documents (up to the listing order of frozenset members)."""
    rep.rule(rule, "the JSON encoder folded over witness data gives the documents the format describes", 2)
    enc, cdec = find_json_functions(an)
    m = enc.module
    dcs = data_classes(an)
    by_name = {ci.name: ci for ci in dcs}
    MISSING = type("MISSING", (), {"__repr__": lambda self: "MISSING"})()
    defaults = {}
    for ci in dcs:
        dd = {}
        for fl in ci.fields:
            if fl.has_default:
                d = field_default(fl)
                if d is not NOFOLD:
                    dd[fl.name] = E(d[1]) if isinstance(d, tuple) and len(d) == 2 and d[0] == "<all-defaults>" else d
        defaults[ci.name] = dd

    def fields_of(o):
        ci = by_name[o["__cls__"]]
        out = []
        for fl in ci.fields:
            fo = Obj({"name": fl.name, "default": MISSING, "default_factory": MISSING, "metadata": {}})
            if fl.name in defaults[ci.name]:
                d = defaults[ci.name][fl.name]
                if fl.default_factory is not None:
                    fo["default_factory"] = (lambda _d=d: _fill(_d, by_name, defaults))
                else:
                    fo["default"] = d
            out.append(fo)
        return out

    def resolve_in(mod, fn):
        def resolve(name):
            r = an.prog.resolve_global(mod, name, fn)
            return r[1].node if r and r[0] == "func" else None
        return resolve
    base_resolve = resolve_in(m, enc)

    def resolve(name):
        t = base_resolve(name)
        if t is not None:
            return t
        for g in an.prog.all_functions():
            if g.cls is None and g.parent is None and g.name == name and g.module.name.startswith("code_data") and not g.module.is_test:
                return g.node
        return None
    extra = {"is_dataclass": lambda o: isinstance(o, Obj) and "__cls__" in o, "fields": fields_of, "MISSING": MISSING,
             "getattr": lambda o, n, *d: o[n] if n in o or not d else d[0], "b64encode": base64.b64encode, "urlsafe_b64encode": base64.urlsafe_b64encode,
             "isnan": math.isnan, "isinf": math.isinf, "ascii": ascii, "repr": repr, "NotImplementedError": NotImplementedError, "ValueError": ValueError,
             "dataclasses": {"MISSING": MISSING, "fields": fields_of, "is_dataclass": lambda o: isinstance(o, Obj) and "__cls__" in o}}
    extra = {**stdlib_names(m), **extra}
    for name, doc, exp in (("a function with every kind of parameter, an empty docstring and a tagged name", INNER_DOC, INNER_EXP),
                           ("a function without parameters, docstring or kind (its type is the empty object)", PLAIN_DOC, PLAIN_EXP),
                           ("a module with every operand kind, every tagged constant, a nested code object with a position override, unreferenced entries and a trailing line", OUTER_DOC, OUTER_EXP)):
        ev = ObjEval(resolve, extra=extra)
        ev.module_assigns = {**{k: v for mod in an.prog.modules.values() if mod.name.startswith("code_data") and not mod.is_test for k, v in mod.assigns.items()}, **m.assigns}
        ev.MAX_ITER = 256
        try:
            got = ev.call_method(enc.node, _fill(exp, by_name, defaults))
            why = _doc_same(got, doc)
        except BlockOutcome as o:
            why = f"the encoder stops at `{norm_src(o.node)[:70]}`"
        except (ValueError, ArithmeticError, __import__("re").error) as ex:
            why = f"the encoder raises {type(ex).__name__}: {str(ex)[:60]}"
        except Exception as ex:  # noqa: BLE001 - a gap of the evaluator, never a verdict
            raise AnalysisError(f"{enc.qual}: the encoder is not evaluable on the witness data ({type(ex).__name__}: {ex})")
        rep.add(rule, f"{enc.qual}::witness data: {name.split(',')[0]}", why is None, loc(m, enc.node),
                f"{name}: written as the format describes" if why is None else
                f"for the witness data ({name}) the encoder writes {why} - not the document of the format (which from_json_data, the schema and other hosts expect)")


_N = float("nan")
WITNESS_VALUES = {
    "huge positive int": 9007199254740992, "huge negative int": -9007199254740992, "very long int": 10 ** 40,
    "+inf": float("inf"), "-inf": float("-inf"), "nan": _N,
    "string with a lone surrogate": "\ud800 doc", "string with quotes and a surrogate": "\udc80\"'x",
    "empty bytes": b"", "bytes": b"\x00\xff", "ellipsis": Ellipsis,
    "complex": complex(1.5, -0.0), "complex with nan / inf": complex(_N, float("-inf")),
    "frozenset": frozenset({1, "a", b"\x00"}), "empty frozenset": frozenset(),
    "tuple": (1, (2.5, None), -99999999999999999999), "empty tuple": (),
    "bool": True, "none": None, "small int": -7, "float": -0.0, "plain string": "x",
}


def constants_fold_rule(an: Analysis, rep, rule="R07.C"):
    """Both directions of the constant codec folded over every witness of json_model.CONSTANT_WITNESSES (each tagged form, alone, inside a tuple, inside a frozenset):
    decoding the witness document gives the witness value, encoding the value gives the document (frozenset members in any order)."""
    from .json_model import CONSTANT_WITNESSES
    rep.rule(rule, "the constant codec folded over every witness constant, both directions", 2)
    enc, cdec = find_json_functions(an)
    values = {}
    for name, doc in CONSTANT_WITNESSES:
        if name in WITNESS_VALUES:
            values[name] = WITNESS_VALUES[name]
    for name, doc in CONSTANT_WITNESSES:
        for pre, build in (("tuple holding ", lambda v: (v, (v,))), ("frozenset holding ", lambda v: frozenset({v, (v,)}))):
            if name.startswith(pre):
                base = name[len(pre):].split(" / ")[0]
                if base in WITNESS_VALUES:
                    values[name] = build(WITNESS_VALUES[base])

    def resolver(fn):
        def resolve(nm):
            r = an.prog.resolve_global(fn.module, nm, fn)
            if r and r[0] == "func":
                return r[1].node
            for g in an.prog.all_functions():
                if g.cls is None and g.parent is None and g.name == nm and g.module.name.startswith("code_data") and not g.module.is_test:
                    return g.node
            return None
        return resolve
    dcs = data_classes(an)
    MISSING = object()
    extra_d = {**stdlib_names(cdec.module), "literal_eval": ast.literal_eval, "copy": lambda x: dict(x) if isinstance(x, dict) else list(x)}
    extra_e = {**stdlib_names(enc.module), "is_dataclass": lambda o: False, "fields": lambda o: [], "MISSING": MISSING, "ascii": ascii, "repr": repr}
    bad_d, bad_e = [], []
    n = 0
    for name, doc in CONSTANT_WITNESSES:
        if name not in values:
            continue
        n += 1
        want = values[name]
        import copy as _copy
        for direction in ("decode", "encode"):
            fn = cdec if direction == "decode" else enc
            ev = ObjEval(resolver(fn), extra=extra_d if direction == "decode" else extra_e)
            ev.module_assigns = fn.module.assigns
            ev.MAX_ITER = 256
            try:
                if direction == "decode":
                    got = ev.call_method(fn.node, _copy.deepcopy(doc))
                    why = _same(got, want, {}, "value")
                else:
                    got = ev.call_method(fn.node, want)
                    why = _doc_same(got, doc)
            except BlockOutcome as o:
                why = f"stops at `{norm_src(o.node)[:60]}`"
            except (SyntaxError, ValueError, ArithmeticError, __import__("re").error) as ex:
                why = f"raises {type(ex).__name__}: {str(ex)[:50]}"
            except Exception as ex:  # noqa: BLE001
                raise AnalysisError(f"{fn.qual}: not evaluable on the witness constant '{name}' ({type(ex).__name__}: {ex})")
            if why:
                (bad_d if direction == "decode" else bad_e).append(f"{name} ({ascii(doc)[:50]}): {why}")
    rep.add(rule, f"{cdec.qual}::every witness document decodes to its constant", not bad_d, loc(cdec.module, cdec.node),
            f"{n} witness constants (every tagged form, alone and nested in tuples / frozensets)" if not bad_d else f"{bad_d[0]}" + (f" (+{len(bad_d) - 1} more)" if len(bad_d) > 1 else ""))
    rep.add(rule, f"{enc.qual}::every witness constant is written as its document", not bad_e, loc(enc.module, enc.node),
            f"{n} witness constants" if not bad_e else f"{bad_e[0]}" + (f" (+{len(bad_e) - 1} more)" if len(bad_e) > 1 else ""))
