"""C04 - function signature, docstring and kind agree with CPython's calling convention (DESIGN 5, R04.1-R04.7)."""
from __future__ import annotations

import ast
import itertools
from typing import Dict, List, Optional, Tuple

import reference.contracts as C
from sa.analysis import VERSIONS, Analysis, vname
from sa.feval import FevalError, feval
from sa.model import AnalysisError, FunctionInfo, loc, norm_src

from .encode_model import guards_of, inline_locals

# ------------------------------------------------------------------ linear forms over P (posonly), A (argcount), K (kwonly)


class Lin:
    def __init__(self, c=0, **t):
        self.c = c
        self.t = {k: v for k, v in t.items() if v}

    def __add__(self, o):
        o = lin(o)
        t = dict(self.t)
        for k, v in o.t.items():
            t[k] = t.get(k, 0) + v
        return Lin(self.c + o.c, **t)

    def __sub__(self, o):
        o = lin(o)
        return self + Lin(-o.c, **{k: -v for k, v in o.t.items()})

    def key(self):
        return (self.c, tuple(sorted((k, v) for k, v in self.t.items() if v)))

    def __eq__(self, o):
        return isinstance(o, Lin) and self.key() == o.key()

    def __hash__(self):
        return hash(self.key())

    def __repr__(self):
        parts = [(f"{v}*" if v != 1 else "") + k for k, v in sorted(self.t.items()) if v]
        if self.c or not parts:
            parts.append(str(self.c))
        return "+".join(parts).replace("+-", "-")


def lin(x):
    return x if isinstance(x, Lin) else Lin(x)


END = "END"


class Seq:  # original[lo:hi]
    def __init__(self, lo, hi=END):
        self.lo, self.hi = lo, hi

    def __repr__(self):
        return f"varnames[{self.lo}:{'' if self.hi == END else self.hi}]"


class Elem:
    def __init__(self, idx):
        self.idx = idx

    def __repr__(self):
        return f"varnames[{self.idx}]"


class SymError(Exception):
    pass


class SymEval:
    """Symbolic evaluation of the varnames-slicing function on one flag path."""

    def __init__(self, fn: FunctionInfo, flags: Dict[str, bool], field_syms: Dict[str, object]):
        self.fn, self.flags, self.field_syms = fn, flags, field_syms
        self.env: Dict[str, object] = {}
        self.result: Optional[Dict[str, object]] = None
        self.param = fn.params[0]
        self.flag_names = set()

    def ev(self, e):
        if isinstance(e, ast.Constant):
            if isinstance(e.value, int):
                return Lin(e.value)
            return e.value
        if isinstance(e, ast.Name):
            if e.id in self.env:
                return self.env[e.id]
            raise SymError(f"unbound {e.id}")
        if isinstance(e, ast.Attribute) and isinstance(e.value, ast.Name) and e.value.id == self.param:
            if e.attr in self.field_syms:
                return self.field_syms[e.attr]
            raise SymError(f"unknown input field {e.attr}")
        if isinstance(e, ast.Tuple):
            return tuple(self.ev(x) for x in e.elts)
        if isinstance(e, ast.BinOp) and isinstance(e.op, (ast.Add, ast.Sub)):
            l, r = self.ev(e.left), self.ev(e.right)
            if isinstance(l, (Lin, int)) and isinstance(r, (Lin, int)):
                return lin(l) + lin(r) if isinstance(e.op, ast.Add) else lin(l) - lin(r)
            raise SymError(f"arithmetic on {l!r}, {r!r}")
        if isinstance(e, ast.UnaryOp) and isinstance(e.op, (ast.USub, ast.UAdd)):
            v = self.ev(e.operand)
            if isinstance(v, (Lin, int)):
                return Lin(0) - lin(v) if isinstance(e.op, ast.USub) else lin(v)
            raise SymError(f"sign of {v!r}")
        if isinstance(e, ast.Subscript):
            b = self.ev(e.value)
            if not isinstance(b, Seq):
                raise SymError(f"subscript of {b!r}")
            if isinstance(e.slice, ast.Slice):
                if e.slice.step is not None:
                    raise SymError("stepped slice")
                def bound(x):
                    """offset from the start of the original for a slice bound; a negative bound counts from the end (x[-0:] is x[0:])"""
                    v = lin(self.ev(x))
                    if not v.t and v.c == 0:
                        return b.lo
                    if all(c >= 0 for c in v.t.values()) and v.c >= 0:
                        return b.lo + v
                    if all(c <= 0 for c in v.t.values()) and v.c <= 0:
                        if b.hi == END:
                            raise SymError("negative bound on an open sequence")
                        return b.hi + v
                    raise SymError(f"sign of the slice bound {v!r} is not decided on this path")
                lo = bound(e.slice.lower) if e.slice.lower is not None else b.lo
                hi = b.hi if e.slice.upper is None else bound(e.slice.upper)
                return Seq(lo, hi)
            return Elem(b.lo + self.ev(e.slice))
        if isinstance(e, ast.Call) and isinstance(e.func, ast.Name) and e.func.id == "len" and len(e.args) == 1:
            s = self.ev(e.args[0])
            if isinstance(s, Seq) and s.hi != END:
                return s.hi - s.lo
            raise SymError("len of open sequence")
        if isinstance(e, ast.Call) and isinstance(e.func, ast.Name) and e.func.id == "tuple" and len(e.args) == 1:
            return self.ev(e.args[0])
        raise SymError(f"unsupported expression {norm_src(e)}")

    def _lin_truth(self, v) -> bool:
        """Truthiness of a count: decidable when it is 0 or (non-negative symbols + a positive constant)."""
        v = lin(v)
        if not v.t and v.c == 0:
            return False
        if all(c >= 0 for c in v.t.values()) and v.c > 0:
            return True
        if all(c <= 0 for c in v.t.values()) and v.c < 0:
            return True
        raise SymError(f"truth value of the symbolic count {v!r} is not decided on this path")

    def _set_const(self, node):
        if isinstance(node, ast.Set):
            return {e.value for e in node.elts if isinstance(e, ast.Constant)}
        if isinstance(node, ast.Name):
            exprs = self.fn.module.assigns.get(node.id, [])
            if len(exprs) == 1 and isinstance(exprs[0], ast.Set):
                return {e.value for e in exprs[0].elts if isinstance(e, ast.Constant)}
        raise SymError(f"flag set {norm_src(node)} not a constant")

    def test(self, t) -> bool:
        if isinstance(t, ast.BoolOp):
            vals = [self.test(v) for v in t.values]
            return all(vals) if isinstance(t.op, ast.And) else any(vals)
        if isinstance(t, ast.Call) and isinstance(t.func, ast.Attribute) and t.func.attr in ("isdisjoint",) and len(t.args) == 1:
            if self.ev(t.func.value) == "FLAGS":
                names = self._set_const(t.args[0])
                self.flag_names |= names & set(self.flags)
                return not any(self.flags.get(n, False) for n in names)
        if isinstance(t, ast.Compare) and len(t.ops) == 1 and not isinstance(t.ops[0], (ast.In, ast.NotIn)):
            l, r = self.ev(t.left), self.ev(t.comparators[0])
            if isinstance(l, (Lin, int)) and isinstance(r, (Lin, int)):
                d = lin(l) - lin(r)
                op = t.ops[0]
                if isinstance(op, (ast.Eq, ast.NotEq)):
                    z = not self._lin_truth(d)
                    return z if isinstance(op, ast.Eq) else not z
                if not d.t:
                    return {ast.Lt: d.c < 0, ast.LtE: d.c <= 0, ast.Gt: d.c > 0, ast.GtE: d.c >= 0}[type(op)]
                pos = self._lin_truth(d) and (all(c >= 0 for c in d.t.values()) and d.c > 0)
                return {ast.Gt: pos, ast.GtE: pos, ast.Lt: not pos, ast.LtE: not pos}[type(op)]
        if isinstance(t, (ast.Name, ast.Attribute)):
            v = self.ev(t)
            if isinstance(v, (Lin, int)):
                return self._lin_truth(v)
        if isinstance(t, ast.UnaryOp) and isinstance(t.op, ast.Not):
            return not self.test(t.operand)
        if isinstance(t, ast.Compare) and len(t.ops) == 1 and isinstance(t.ops[0], (ast.In, ast.NotIn)) and isinstance(t.left, ast.Constant):
            s = self.ev(t.comparators[0])
            if s == "FLAGS" and t.left.value in self.flags:
                self.flag_names.add(t.left.value)
                v = self.flags[t.left.value]
                return v if isinstance(t.ops[0], ast.In) else not v
        raise SymError(f"unsupported test {norm_src(t)}")

    def assign(self, target, val):
        if isinstance(target, ast.Name):
            self.env[target.id] = val
        elif isinstance(target, ast.Tuple):
            if not isinstance(val, tuple) or len(val) != len(target.elts):
                raise SymError("tuple assignment arity")
            for t, v in zip(target.elts, val):
                self.assign(t, v)
        else:
            raise SymError(f"unsupported target {norm_src(target)}")

    def run(self, stmts):
        for st in stmts:
            if self.result is not None:
                return
            if isinstance(st, ast.Expr):
                continue  # docstring / flags_data.remove(...)
            if isinstance(st, ast.Assign) and len(st.targets) == 1:
                self.assign(st.targets[0], self.ev(st.value))
            elif isinstance(st, ast.AnnAssign) and st.value is not None:
                self.assign(st.target, self.ev(st.value))
            elif isinstance(st, ast.If):
                self.run(st.body if self.test(st.test) else st.orelse)
            elif isinstance(st, ast.Return):
                v = st.value
                if isinstance(v, ast.Call):
                    out = {}
                    for k in v.keywords:
                        out[k.arg] = self.ev(k.value)
                    self.result = out
                    self.result_node = v
                    return
                raise SymError("return is not a constructor call")
            elif isinstance(st, (ast.AugAssign,)):
                continue
            else:
                raise SymError(f"unsupported statement {type(st).__name__}")


# ------------------------------------------------------------------ segment order of a concatenation expression


def segments(an: Analysis, fn: FunctionInfo, e: ast.AST, argname: str, depth=0) -> List[Tuple[str, Optional[str], bool]]:
    """[(Args field, kind name or None, optional?)] in the order the expression concatenates them."""
    if depth > 14:
        raise AnalysisError("segment extraction too deep")
    fields = {f.name for f in an.prog.cls("code_data::Args").fields}

    def field_of(x) -> Optional[str]:
        if isinstance(x, ast.Attribute) and isinstance(x.value, ast.Name) and x.value.id == argname and x.attr in fields:
            return x.attr
        return None

    def kind_of(x) -> Optional[str]:
        if isinstance(x, ast.Tuple) and len(x.elts) == 2 and isinstance(x.elts[1], ast.Attribute):
            return x.elts[1].attr
        return None

    if isinstance(e, ast.Starred):
        return segments(an, fn, e.value, argname, depth)
    if isinstance(e, (ast.Tuple, ast.List)):
        if all(not isinstance(x, ast.Starred) for x in e.elts) and len(e.elts) == 1 and (field_of(e.elts[0]) or kind_of(e.elts[0])):
            x = e.elts[0]
            if field_of(x):
                return [(field_of(x), None, False)]
            return [(field_of(x.elts[0]), kind_of(x), False)]
        out = []
        for x in e.elts:
            out += segments(an, fn, x, argname, depth + 1) if isinstance(x, (ast.Starred, ast.Tuple, ast.List)) else _single(an, fn, x, argname, field_of, kind_of, depth)
        return out
    if isinstance(e, ast.BinOp) and isinstance(e.op, ast.Add):
        return segments(an, fn, e.left, argname, depth + 1) + segments(an, fn, e.right, argname, depth + 1)
    if isinstance(e, ast.GeneratorExp) or isinstance(e, ast.ListComp):
        g = e.generators[0]
        f = field_of(g.iter)
        if f and len(e.generators) == 1:
            return [(f, kind_of(e.elt), False)]
        raise AnalysisError(f"{fn.qual}: comprehension {norm_src(e)} not recognised")
    if isinstance(e, ast.IfExp):
        a = segments(an, fn, e.body, argname, depth + 1)
        b = segments(an, fn, e.orelse, argname, depth + 1)
        if b and not a:
            a = b
        elif b:
            raise AnalysisError(f"{fn.qual}: conditional with two non-empty arms {norm_src(e)}")
        return [(f, k, True) for f, k, _ in a]
    if field_of(e):
        return [(field_of(e), None, False)]
    if isinstance(e, ast.Call):
        fname = e.func.id if isinstance(e.func, ast.Name) else (e.func.attr if isinstance(e.func, ast.Attribute) else None)
        if fname in ("tuple", "list", "OrderedDict", "dict", "chain") and e.args:
            out = []
            for a in e.args:
                out += segments(an, fn, a, argname, depth + 1)
            return out
        if isinstance(e.func, ast.Attribute) and e.func.attr in ("keys", "items", "values", "copy"):
            return segments(an, fn, e.func.value, argname, depth + 1)
        # call to a package function with the Args value as its argument: inline its return expression
        if isinstance(e.func, ast.Name):
            r = an.prog.resolve_global(fn.module, e.func.id, fn)
            if r and r[0] == "func" and len(e.args) == 1 and isinstance(e.args[0], ast.Name) and e.args[0].id == argname:
                return _inline_fn(an, r[1], depth)
    if isinstance(e, ast.Attribute) and isinstance(e.value, ast.Name) and e.value.id == argname:
        # property of Args
        ci = an.prog.cls("code_data::Args")
        m = ci.methods.get(e.attr)
        if m is not None and m.is_property:
            return _inline_fn(an, m, depth)
    if isinstance(e, ast.Name) and e.id == argname:
        # the Args value itself (its length is taken): the order in which Args.__len__ counts the kinds
        m = an.prog.cls("code_data::Args").methods.get("__len__")
        if m is not None:
            return _inline_fn(an, m, depth)
    if isinstance(e, ast.Call) and isinstance(e.func, ast.Name) and e.func.id in ("len", "int", "bool") and len(e.args) == 1:
        return segments(an, fn, e.args[0], argname, depth + 1)
    if isinstance(e, ast.Compare) and len(e.ops) == 1 and isinstance(e.ops[0], ast.IsNot) and isinstance(e.comparators[0], ast.Constant) and e.comparators[0].value is None and field_of(e.left):
        return [(field_of(e.left), None, True)]  # counts one when the optional parameter is there
    if isinstance(e, ast.Name):
        e2 = inline_locals(fn.node, e)
        if not isinstance(e2, ast.Name):
            return segments(an, fn, e2, argname, depth + 1)
    raise AnalysisError(f"{fn.qual}: cannot extract the parameter order from {norm_src(e)}")


def _single(an, fn, x, argname, field_of, kind_of, depth):
    if field_of(x):
        return [(field_of(x), None, False)]
    return segments(an, fn, x, argname, depth + 1)


def _inline_fn(an, g: FunctionInfo, depth):
    rets = [n for n in ast.walk(g.node) if isinstance(n, ast.Return) and n.value is not None]
    if len(rets) != 1:
        raise AnalysisError(f"{g.qual}: expected a single return")
    v = inline_locals(g.node, rets[0].value)
    p = g.params[0]
    # delegation: return other(self)
    return segments(an, g, v, p, depth + 1)


# ------------------------------------------------------------------ the rules


def find_args_decoder(an: Analysis) -> FunctionInfo:
    """The function that builds Args from the variable names: among the functions of the decode closure that construct Args, the one that
    passes keyword arguments (a bare `Args()` is not a decoder)."""
    it, _ = an.interp("from_code")
    cands = []
    for f in an.closure("from_code"):
        for c in ast.walk(f.node):
            if isinstance(c, ast.Call) and isinstance(c.func, ast.Name) and c.func.id == "Args" and (c.keywords or c.args):
                r = an.prog.resolve_global(f.module, "Args", f)
                if r and r[0] == "class" and r[1].qual == "code_data::Args":
                    cands.append(f)
    cands = list(dict.fromkeys(cands))
    if len(cands) == 1:
        return cands[0]
    raise AnalysisError(f"decoder of Args (a call Args(field=...) in the from_code closure) not found uniquely: {[f.qual for f in cands]}")


def r041_input(an, rep):
    """The argument decoder is given co_varnames, co_argcount, co_posonlyargcount and co_kwonlyargcount as they are: CPython binds parameters
    to the first slots of co_varnames whatever else is true of them (a parameter captured by a closure is still a parameter)."""
    it, _ = an.interp("from_code")
    ai = an.prog.cls("code_data._args::ArgsInput")
    want = {"varnames": "co_varnames", "argcount": "co_argcount", "kwonlyargcount": "co_kwonlyargcount"}
    n = 0
    for f in an.closure("from_code"):
        for c in ast.walk(f.node):
            # ArgsInput(...) or `cls(...)` inside a classmethod of ArgsInput
            is_ctor = isinstance(c, ast.Call) and isinstance(c.func, ast.Name) and (c.func.id == ai.name or (
                f.cls is not None and f.cls.qual == ai.qual and f.is_classmethod and f.params and c.func.id == f.params[0]))
            if is_ctor:
                given = {k.arg: k.value for k in c.keywords if k.arg}
                for fl, a in zip(ai.fields, c.args):
                    given[fl.name] = a
                for fld, attr in want.items():
                    if fld not in given:
                        continue
                    n += 1
                    vals = it.value_at(given[fld])
                    direct = bool(vals) and all(a[0] == "src" and a[1] == "code" and a[2] == (("a", attr),) for a in vals)
                    rep.add("R04.1", f"{f.qual}::{ai.name}.{fld} is code.{attr} itself", direct, loc(f.module, given[fld]),
                            f"`{norm_src(given[fld])}` is code.{attr}" if direct else
                            f"`{norm_src(given[fld])[:60]}` is not code.{attr} as it is (it is computed / filtered first): the parameters are the first slots of co_varnames, so a name taken "
                            f"out or moved before the split (e.g. every name that is also in co_cellvars: `def f(a, b): return lambda: a`) shifts all later parameters")
    if n == 0:
        raise AnalysisError(f"construction of {ai.name} not found in the decode closure")


def r041_unconditional(an, rep):
    """The arguments of every function-like code object go through the decoder: `*args` / `**kwargs` are not counted in co_argcount /
    co_kwonlyargcount, so a shortcut on the counts loses them; any Args value in the decoded data comes from the decoder."""
    fn = find_args_decoder(an)
    it, _ = an.interp("from_code")
    from .encode_model import guards_of
    n = 0
    for f in an.closure("from_code"):
        for c in ast.walk(f.node):
            if isinstance(c, ast.Call) and fn.qual in it.callees.get(id(c), ()):
                n += 1
                st = c
                from .encode_model import parent_map
                pm = parent_map(f.module)
                while id(st) in pm and not isinstance(st, ast.stmt):
                    st = pm[id(st)]
                gs = [g for g, pos in guards_of(f.module, f, st) if not any(isinstance(x, ast.Attribute) and x.attr == "version_info" for x in ast.walk(g))]
                rep.add("R04.1", f"{f.qual}::{fn.name} is called for every code object", not gs, loc(f.module, c),
                        f"`{norm_src(c)[:50]}` is unconditional" if not gs else
                        f"the signature is decoded only when `{norm_src(gs[0])}`: a function whose only parameters are *args / **kwargs (not counted in co_argcount / co_kwonlyargcount) "
                        f"decodes with no parameters at all")
            if isinstance(c, ast.Call) and isinstance(c.func, ast.Name) and c.func.id == "Args" and not c.args and not c.keywords and f is not fn:
                r = an.prog.resolve_global(f.module, "Args", f)
                if r and r[0] == "class" and r[1].qual == "code_data::Args":
                    rep.add("R04.1", f"{f.qual}::no empty Args() in the decoder", False, loc(f.module, c),
                            f"`{norm_src(c)}` puts an empty signature into the decoded data without looking at co_varnames / the VARARGS and VARKEYWORDS flags")
    if n == 0:
        raise AnalysisError(f"no call of {fn.qual} found in the decode closure")


def run(an: Analysis, rep):
    rep.explanation = (
        "Decides the co_varnames layout contract on both sides and the signature contract: symbolic evaluation (linear forms over "
        "posonlyargcount, argcount, kwonlyargcount) of the decoder's slicing on the four VARARGS x VARKEYWORDS paths must give "
        "positional_only=[0,P) positional_or_keyword=[P,A) keyword_only=[A,A+K) *args=A+K **kwargs=A+K+[VARARGS] (Python/compile.c, "
        "inspect._signature_from_function); Args.parameters concatenates in signature order with the kind of the same name; the "
        "encoder's varnames prefix and the table seeds concatenate in layout order; counts and flags derive from the right fields "
        "(finite evaluation); docstring = consts[0] iff it is a str; function kind inference over the four NEWLOCALS/OPTIMIZED "
        "subsets; len(args) is the length of parameters. A round trip cannot see a layout error shared by both sides."
    )
    rep.rule("R04.1", "co_varnames layout, decode side", 20)
    rep.rule("R04.2", "signature order and kinds of Args.parameters", 5)
    rep.rule("R04.3", "argument counts and flags derived from the right fields", 5)
    rep.rule("R04.4", "co_varnames layout, encode side and seeds", 2)
    rep.rule("R04.5", "docstring rule", 1)
    rep.rule("R04.6", "function kind inference", 4)
    rep.rule("R04.7", "len(args)", 1)
    from .common import purity
    rep.run(purity, an, rep, "R04.P", ["from_code", "parameters", "args_len"])
    from .common import assert_guard_rule as _agrx
    rep.run(_agrx, an, rep, "R04.A", ["from_code", "parameters", "args_len"])
    rep.run(r04f, an, rep)
    from .common import process_state_rule as _psr
    rep.run(_psr, an, rep, "R04.S", ["from_code", "parameters", "args_len"])
    from .common import SharedRules as _SR4
    from . import c01 as _c01
    for V in VERSIONS:
        rep.run(_c01.r014, an, _SR4(rep, "R04.F", "every flag a function's code object can legitimately carry is representable (shared with C01's R01.4): otherwise from_code raises and there is no signature / docstring / kind to report"), V)
    from .common import field_rewrite_rule, substring_rule
    from .common import rejection_paths_rule
    from . import c02 as _c02
    rep.run(rejection_paths_rule, an, _SR4(rep, "R04.R", "every place where from_code can stop with an exception is one confirmed by reading (shared with C02's R02.R): a function whose code object is "
                                                        "refused has no decoded signature, docstring or kind at all"), "R02.R", ["from_code"], _c02.DECODER_REJECTIONS, "from_code")
    from . import c11 as _c11n
    rep.run(_c11n.r11n, an, _SR4(rep, "R04.N", "the names the decoder gives to flag bits are CPython's (shared with C11's R11.N): Function.type is read off those names, so exchanged values call "
                                              "every coroutine an async generator"))
    rep.run(field_rewrite_rule, an, rep, "R04.8")
    rep.run(substring_rule, an, rep, "R04.9", ["parameters", "args_len"])
    for fn in (r041, r041_input, r041_unconditional, r042, r043, r044, r045, r046, r046_kind, r046_module_await, r047, r04i):
        rep.run(fn, an, rep)
    from .common import SharedRules
    from . import c11
    sh = SharedRules(rep, "R04.H", "the decoder reads every argument-count header field the interpreter version has (shared with C11's R11.4)")
    for V in VERSIONS:
        rep.run(c11.r114, an, sh, V, "R11.4", only=("argcount", "posonlyargcount", "kwonlyargcount", "varnames", "flags"))


def r041(an, rep):
    fn = find_args_decoder(an)
    ai = an.prog.cls("code_data._args::ArgsInput")
    if {f.name for f in ai.fields} != {"argcount", "posonlyargcount", "kwonlyargcount", "varnames", "flags_data"}:
        raise AnalysisError(f"ArgsInput fields changed: {[f.name for f in ai.fields]}")
    # each count is either 0 or (a symbol >= 0) + 1, so that a test on a count (`if not kwonlyargcount`) is decided on every variant
    variants = []
    for zp, zq, zk in itertools.product((True, False), repeat=3):
        P = Lin(0) if zp else Lin(1, p=1)
        Q = Lin(0) if zq else Lin(1, q=1)
        K = Lin(0) if zk else Lin(1, k=1)
        variants.append((P, P + Q, K, f"posonly{'=0' if zp else '>0'},pos_or_kw{'=0' if zq else '>0'},kwonly{'=0' if zk else '>0'}"))
    for (P, A, K, vdesc), (va, vk) in itertools.product(variants, itertools.product([False, True], repeat=2)):
        syms = {"argcount": A, "posonlyargcount": P, "kwonlyargcount": K, "varnames": Seq(Lin(0)), "flags_data": "FLAGS"}
        se = SymEval(fn, {"VARARGS": va, "VARKEYWORDS": vk}, syms)
        try:
            se.run(fn.node.body)
        except SymError as e:
            raise AnalysisError(f"{fn.qual}: slicing idiom not recognised ({e})")
        if se.result is None:
            raise AnalysisError(f"{fn.qual}: no Args(...) return on path VARARGS={va} VARKEYWORDS={vk}")
        if not {"VARARGS", "VARKEYWORDS"} <= se.flag_names | {n for n, v in (("VARARGS", va), ("VARKEYWORDS", vk)) if False}:
            pass
        base = A + K
        want = {
            "positional_only": ("seq", Lin(0), P),
            "positional_or_keyword": ("seq", P, A),
            "keyword_only": ("seq", A, A + K),
            "var_positional": ("elem", base) if va else None,
            "var_keyword": ("elem", base + (1 if va else 0)) if vk else None,
        }
        path = f"VARARGS={'1' if va else '0'},VARKEYWORDS={'1' if vk else '0'}"
        for fld, w in want.items():
            got = se.result.get(fld)
            if got is None and fld not in se.result:
                # field left at its default: () for the tuple fields, None for the two names
                got = None if fld in ("var_positional", "var_keyword") else Seq(Lin(0), Lin(0))
            if isinstance(got, Seq) and isinstance(w, tuple) and w[0] == "seq" and lin(got.hi if got.hi != END else 0) - got.lo == Lin(0) and w[2] - w[1] == Lin(0):
                got = Seq(w[1], w[2])  # two empty slices are the same value wherever they start
            if isinstance(got, Seq):
                g = ("seq", got.lo, got.hi)
            elif isinstance(got, Elem):
                g = ("elem", got.idx)
            else:
                g = got
            ok = g == w
            rep.add("R04.1", f"{fn.qual}::{fld} [{path}]", ok, loc(fn.module, se.result_node),
                    f"{fld} = {got!r}" if ok else
                    f"on the path {path}, {fld} is bound to {got!r} but CPython's layout puts it at {_show(w)} "
                    f"(co_varnames = positional, keyword-only, *args, **kwargs): e.g. `def f(a, *c, d, **e)` has co_varnames ('a','d','c','e'), "
                    f"so kinds are attached to the wrong names (the mirrored encoder keeps the round trip green)")


def _show(w):
    if w is None:
        return "None"
    if w[0] == "seq":
        return f"varnames[{w[1]}:{w[2]}]"
    return f"varnames[{w[1]}]"


def _parameters_fn(an) -> FunctionInfo:
    it, _ = an.interp("parameters")
    api = an.prog.function("code_data::Args.parameters")
    cands = [q for (c, q) in it.call_edges if c == api.qual]
    return an.prog.function(cands[0]) if cands else api


def r042(an, rep):
    fn = _parameters_fn(an)
    segs = _inline_fn(an, fn, 0)
    order = [f for f, k, o in segs]
    ok = order == C.SIGNATURE_ORDER
    rep.add("R04.2", f"{fn.qual}::signature order", ok, loc(fn.module, fn.node),
            f"parameters are concatenated as {order}" if ok else f"parameters are concatenated as {order}; inspect.signature orders them {C.SIGNATURE_ORDER}")
    for f, k, opt in segs:
        okk = k is not None and k == f.upper()
        rep.add("R04.2", f"{fn.qual}::{f} kind", okk, loc(fn.module, fn.node),
                f"{f} -> _ParameterKind.{k}" if okk else f"{f} is paired with kind {k}, CPython binds it as {f.upper()}")
    for f, k, opt in segs:
        want_opt = f in ("var_positional", "var_keyword")
        if opt != want_opt:
            rep.add("R04.2", f"{fn.qual}::{f} optional", False, loc(fn.module, fn.node), f"{f} is {'conditional' if opt else 'unconditional'} in the concatenation")


def _args_to_input(an) -> Tuple[FunctionInfo, ast.Call]:
    it, _ = an.interp("to_code")
    objs = it.ctor_sites.get("code_data._args::ArgsInput", set())
    for o in objs:
        site = o[1]
        for f in an.closure("to_code"):
            if f.module.name == site[0] and f.node.lineno <= site[1] <= f.node.end_lineno:
                for n in ast.walk(f.node):
                    if isinstance(n, ast.Call) and n.lineno == site[1] and n.col_offset == site[2]:
                        return f, n
    raise AnalysisError("encoder-side ArgsInput(...) constructor not found")


def _args_evaluator(an, fn):
    """Evaluates an expression of `fn` over a model of an Args value (properties of the Args class and package helpers included)."""
    from sa.feval import Obj, ObjEval
    ci = an.prog.cls("code_data::Args")

    def resolve(name):
        r = an.prog.resolve_global(fn.module, name, fn)
        if r and r[0] == "func":
            return r[1].node
        for g in an.prog.all_functions():
            if g.cls is None and g.parent is None and g.name == name and g.module.name.startswith("code_data") and not g.module.is_test:
                return g.node
        return None
    kinds = {"POSITIONAL_ONLY": 0, "POSITIONAL_OR_KEYWORD": 1, "VAR_POSITIONAL": 2, "KEYWORD_ONLY": 3, "VAR_KEYWORD": 4}

    all_assigns = {}
    for mod in an.prog.modules.values():
        if mod.name.startswith("code_data") and not mod.is_test:
            all_assigns.update(mod.assigns)
    all_assigns.update(fn.module.assigns)

    def ev(expr, argp, model, extra_env=None, version=(3, 10)):
        e = ObjEval(resolve, extra={"_ParameterKind": kinds, "Parameter": kinds, "OrderedDict": dict, "sys": {"version_info": tuple(version) + (0, "final", 0)}},
                    methods={m.name: m.node for m in ci.methods.values()})
        e.properties = {m.name: m.node for m in ci.methods.values() if "property" in m.decorators}
        e.module_assigns = all_assigns
        env = {argp: Obj(model)}
        env.update(extra_env or {})
        return e.ev(expr, env)
    return ev


def r043(an, rep, dup=False):
    from sa.feval import BlockOutcome
    fn, call = _args_to_input(an)
    argp = fn.params[0]
    kws = {k.arg: k.value for k in call.keywords}
    for f, a in zip(an.prog.cls("code_data._args::ArgsInput").fields, call.args):
        kws[f.name] = a
    model = {"positional_only": ("a", "b"), "positional_or_keyword": ("c", "d", "e"), "keyword_only": ("f", "g", "h", "i"),
             "var_positional": "va", "var_keyword": "vk"}
    # the counts are counts of parameters, not of distinct names: a code object altered by hand (co_varnames with a repeated name) keeps its counts
    model_dup = {"positional_only": ("a", "a"), "positional_or_keyword": ("c", "a", "e"), "keyword_only": ("f", "c", "f", "i"),
                 "var_positional": "a", "var_keyword": "f"}
    want = {"argcount": 5, "posonlyargcount": 2, "kwonlyargcount": 4}
    aev = _args_evaluator(an, fn)
    for name, w in want.items():
        e = inline_locals(fn.node, kws[name])
        res = []
        for mdl in (model, model_dup):
            try:
                res.append(aev(e, argp, mdl))
            except (FevalError, KeyError, TypeError, BlockOutcome) as ex:
                raise AnalysisError(f"{fn.qual}: {name} expression {norm_src(e)} not evaluable: {ex}")
        got, got_dup = res
        rep.add("R04.3", f"{fn.qual}::{name}", got == w, loc(fn.module, kws[name]),
                f"{name} = {norm_src(e)}" if got == w else f"{name} = {norm_src(e)} gives {got} for 2 positional-only, 3 positional-or-keyword, 4 keyword-only parameters; CPython's count is {w}")
        if got == w and dup:
            rep.add("R04.3", f"{fn.qual}::{name} counts parameters, not distinct names", got_dup == w, loc(fn.module, kws[name]),
                    f"{name} is {w} also when names repeat" if got_dup == w else
                    f"{name} = {norm_src(e)[:80]} gives {got_dup} instead of {w} when parameter names repeat (a code object whose co_varnames were altered by hand, e.g. ('a', 'a', 'c', ...)): "
                    f"from_code returns data for it without complaint and to_code() then writes a smaller count - silently lossy")
    # flags
    for fld, flag in (("var_positional", "VARARGS"), ("var_keyword", "VARKEYWORDS")):
        res = {}
        for present in (True, False):
            m = dict(model)
            if not present:
                m[fld] = None
            added = set()
            for st in fn.node.body:
                if isinstance(st, ast.If):
                    try:
                        tv = bool(aev(inline_locals(fn.node, st.test), argp, m))
                    except (FevalError, KeyError, TypeError) as ex:
                        raise AnalysisError(f"{fn.qual}: flag guard {norm_src(st.test)} not evaluable: {ex}")
                    for b in (st.body if tv else st.orelse):
                        for n in ast.walk(b):
                            if isinstance(n, ast.Set):
                                added |= {x.value for x in n.elts if isinstance(x, ast.Constant)}
                            if isinstance(n, ast.Call) and isinstance(n.func, ast.Attribute) and n.func.attr == "add" and n.args and isinstance(n.args[0], ast.Constant):
                                added.add(n.args[0].value)
            res[present] = flag in added
        ok = res[True] and not res[False]
        rep.add("R04.3", f"{fn.qual}::{flag} iff {fld}", ok, loc(fn.module, fn.node),
                f"{flag} is added exactly when {fld} is set" if ok else f"{flag} added when {fld} present: {res[True]}, when absent: {res[False]}")


def r044(an, rep):
    fn, call = _args_to_input(an)
    argp = fn.params[0]
    kws = {k.arg: k.value for k in call.keywords}
    e = kws.get("varnames")
    if e is None:
        raise AnalysisError(f"{fn.qual}: ArgsInput(varnames=...) not given by keyword")
    order = [f for f, k, o in segments(an, fn, e, argp)]
    ok = order == C.VARNAMES_LAYOUT
    rep.add("R04.4", f"{fn.qual}::co_varnames prefix order", ok, loc(fn.module, e),
            f"argument names are laid out as {order}" if ok else
            f"the encoder lays the argument names out as {order}; CPython's co_varnames layout is {C.VARNAMES_LAYOUT}: a function with *args and keyword-only "
            f"parameters gets its names bound to the wrong kinds (the decoder mirrors it, so the round trip stays green)")
    # seeding loop of the variable table
    it, _ = an.interp("to_code")
    found = False
    for g in an.closure("to_code"):
        for n in ast.walk(g.node):
            if isinstance(n, ast.For) and isinstance(n.iter, ast.Call) and isinstance(n.iter.func, ast.Name) and n.iter.func.id == "enumerate" and len(n.body) == 1 \
                    and isinstance(n.body[0], ast.Assign) and isinstance(n.body[0].targets[0], ast.Subscript):
                src = n.iter.args[0]
                # which name denotes the Args value here?  the chain ends in `<x>.args`
                base = None
                for a in ast.walk(src):
                    if isinstance(a, ast.Attribute) and a.attr == "args":
                        base = a
                if base is None:
                    continue
                found = True
                order2 = _order_from_args_expr(an, g, src, base)
                ok2 = order2 == C.VARNAMES_LAYOUT
                rep.add("R04.4", f"{g.qual}::variable table seeded in layout order", ok2, loc(g.module, n),
                        f"local-variable slots are pre-assigned as {order2}" if ok2 else
                        f"the encoder pre-assigns local-variable slots in the order {order2}; CPython's layout is {C.VARNAMES_LAYOUT}")
    if not found:
        raise AnalysisError("encoder seeding loop of the variable table not found")


def _order_from_args_expr(an, g, src, base):
    """src is an expression over `<base>` (an Args value): rewrite <base> to a plain name and extract segments."""
    import copy

    class Sub(ast.NodeTransformer):
        def visit_Attribute(self, n):
            if ast.dump(n) == ast.dump(base):
                return ast.Name("__args__", ast.Load())
            return self.generic_visit(n)

    e = Sub().visit(copy.deepcopy(src))
    return [f for f, k, o in segments(an, g, e, "__args__")]


def r045(an, rep):
    it, _ = an.interp("from_code")
    objs = it.ctor_sites.get("code_data::Function", set())
    done = False
    for f in an.closure("from_code"):
        for n in ast.walk(f.node):
            if isinstance(n, ast.Call) and isinstance(n.func, ast.Name) and n.func.id == "Function":
                fields = [x.name for x in an.prog.cls("code_data::Function").fields]
                kws = {k.arg: k.value for k in n.keywords}
                for fl, a in zip(fields, n.args):
                    kws[fl] = a
                if "docstring" not in kws:
                    done = True
                    rep.add("R04.5", f"{f.qual}::every decoded Function is given its docstring", False, loc(f.module, n),
                            f"`{norm_src(n)[:60]}` builds the Function of a decoded code object without a docstring: on this path (guards: "
                            f"{[norm_src(t)[:40] for t, pos in guards_of(f.module, f, n)][-2:]}) docstring is None whatever co_consts[0] holds - a generator or coroutine function with a docstring "
                            f"decodes as one without, and the constant is listed as unreferenced")
                    continue
                e = inline_locals(f.node, kws["docstring"], keep_calls=True)
                from sa.feval import PureEval

                def resolve(name, _f=f):
                    r = an.prog.resolve_global(_f.module, name, _f)
                    return r[1].node if r and r[0] == "func" else None
                from sa.feval import BlockEval as _BE
                pe = _BE(resolve)
                pe.arbitrary_pop = True
                free = sorted({x.id for x in ast.walk(e) if isinstance(x, ast.Name)} - {"isinstance", "str", "len", "type", "bool"} - {n_ for n_ in {x.id for x in ast.walk(e) if isinstance(x, ast.Name)} if resolve(n_) is not None})
                # the table of constants is the name subscripted with 0; every other free local is modelled as an Args value
                tabs = {x.value.id for x in ast.walk(e) if isinstance(x, ast.Subscript) and isinstance(x.value, ast.Name) and isinstance(x.slice, ast.Constant) and x.slice.value == 0}
                if len(tabs) != 1:
                    raise AnalysisError(f"{f.qual}: docstring expression {norm_src(e)}: constants table not recognised")
                tab = tabs.pop()
                others = [x for x in free if x != tab]
                # CPython's rule (funcobject.c func_new) looks at co_consts[0] and nothing else: anything else the expression reads from the code object is a deviation
                foreign = sorted({norm_src(a) for a in ast.walk(e) if isinstance(a, ast.Attribute) and a.attr.startswith("co_") and a.attr != "co_consts"})
                if foreign:
                    done = True
                    rep.add("R04.5", f"{f.qual}::docstring rule", False, loc(f.module, kws["docstring"]),
                            f"the docstring expression `{norm_src(e)[:110]}` also depends on {foreign}: CPython's __doc__ is co_consts[0] whenever that is a str, whatever the "
                            f"instructions do with it (`def f(): \"ok\"; return \"ok\"` has __doc__ 'ok' although the body loads the same constant)")
                    continue
                args_models = [
                    {"positional_only": (), "positional_or_keyword": ("a",), "var_positional": None, "keyword_only": (), "var_keyword": None},
                    {"positional_only": (), "positional_or_keyword": (".0",), "var_positional": None, "keyword_only": (), "var_keyword": None},
                    {"positional_only": (), "positional_or_keyword": (), "var_positional": "args", "keyword_only": ("k",), "var_keyword": "kw"},
                    {"positional_only": (), "positional_or_keyword": (), "var_positional": None, "keyword_only": (), "var_keyword": None},
                ]
                bad = []
                cases = [(), ("d",), (1,), (None, "x"), (b"x",), ("", 1), (("a",),)]
                # every other local the expression reads is given each kind of value the decoder has at hand: the decoded Args, the function-type flag, a flag set
                models = args_models + ["GENERATOR", "COROUTINE", "ASYNC_GENERATOR", None, frozenset(), frozenset({"GENERATOR"}), frozenset({"NESTED"}), ("set", "GENERATOR"), ("set", "COROUTINE")]
                for c in cases:
                    n_ok = 0
                    for combo in (itertools.product(models, repeat=len(others)) if others else [()]):
                        env = {tab: c}
                        env.update({o: (set(v[1:]) if isinstance(v, tuple) and v and v[0] == "set" else v) for o, v in zip(others, combo)})
                        try:
                            got = pe.ev(e, env)
                        except Exception:
                            continue  # ill-typed combination for this expression
                        n_ok += 1
                        want = c[0] if c and type(c[0]) is str else None
                        if got != want:
                            shown = ", ".join(f"{o}={v!r}" if not isinstance(v, dict) else f"{o}=<Args {v['positional_or_keyword'] + v['keyword_only']}>" for o, v in zip(others, combo))
                            bad.append(f"constants={c!r}" + (f", {shown}" if shown else "") + f": docstring={got!r}, CPython's __doc__ is {want!r}")
                    if not n_ok:
                        raise AnalysisError(f"{f.qual}: docstring expression {norm_src(e)} not evaluable")
                done = True
                rep.add("R04.5", f"{f.qual}::docstring rule", not bad, loc(f.module, kws["docstring"]),
                        "; ".join(bad[:2]) if bad else f"docstring = {norm_src(e)} agrees with func_new on {len(cases)} constant tables")
                # and the constants it looks at are the decoded co_consts
                v = it.value_at(kws["docstring"])
                org = {o[2][0][1] for o in it.origins(v) if o[0] == "src" and o[2]}
                rep.add("R04.5", f"{f.qual}::docstring taken from co_consts", org == {"co_consts"}, loc(f.module, kws["docstring"]),
                        "originates in code.co_consts" if org == {"co_consts"} else f"originates in {sorted(org)}")
    if not done:
        raise AnalysisError("Function(...) constructor with a docstring argument not found in the decode closure")


def r046(an, rep):
    tg = an.tg
    fnc = an.prog.cls("code_data::Function")
    t = tg.field_type(fnc.field("type"))
    lits = set()
    for x in (t[1] if t[0] == "union" else [t]):
        if x[0] == "literal":
            lits |= set(x[1])
    # decoder's set of function-type flag names
    it, _ = an.interp("from_code")
    m = an.prog.module("code_data._code_data")
    sets = {}
    for name, exprs in m.assigns.items():
        if len(exprs) == 1 and isinstance(exprs[0], ast.Set):
            sets[name] = {e.value for e in exprs[0].elts if isinstance(e, ast.Constant)}
    tp_sets = [n for n, s in sets.items() if s == lits]
    rep.add("R04.6", "function-type names: decoder set == Literal members", bool(tp_sets), loc(fnc.module, fnc.field("type").node),
            f"{tp_sets[0]} == {sorted(lits)}" if tp_sets else f"no module constant equals the Literal members {sorted(lits)}; decoder sets are {sets}")
    # schema enum
    sch = _schema_enum(an)
    rep.add("R04.6", "function-type names: schema enum == Literal members", sch == lits, loc(fnc.module, fnc.field("type").node),
            f"schema enum {sorted(sch)}" if sch == lits else f"schema enum {sorted(sch)} != Literal members {sorted(lits)}")
    # kind inference over the four subsets of the function flags
    top = None
    for f in an.closure("from_code"):
        if any(isinstance(n, ast.Call) and isinstance(n.func, ast.Name) and n.func.id == "Function" for n in ast.walk(f.node)):
            top = f
    fn_sets = [n for n, s in sets.items() if s == {"NEWLOCALS", "OPTIMIZED"}]
    if top is None or not fn_sets:
        raise AnalysisError("function-kind inference not recognised")
    chain = None
    for st in top.node.body:
        if isinstance(st, ast.If) and any(isinstance(n, ast.Call) and isinstance(n.func, ast.Name) and n.func.id == "Function" for n in ast.walk(st)):
            chain = st
    if chain is None:
        raise AnalysisError(f"{top.qual}: if-chain building Function(...) not found")
    flagvar = None
    for n in ast.walk(inline_locals(top.node, chain.test)):
        if isinstance(n, ast.Name) and n.id not in sets and n.id not in ("len",):
            flagvar = n.id
    for sub in [set(), {"NEWLOCALS"}, {"OPTIMIZED"}, {"NEWLOCALS", "OPTIMIZED"}]:
        env = {k: frozenset(v) for k, v in sets.items()}
        env[flagvar] = frozenset(sub | {"NOFREE_PLACEHOLDER"})
        env["len"] = len
        node = chain
        outcome = None
        while True:
            try:
                tv = bool(feval(inline_locals(top.node, node.test), env))
            except FevalError as ex:
                raise AnalysisError(f"{top.qual}: kind test not evaluable: {ex}")
            body = node.body if tv else node.orelse
            if not tv and len(body) == 1 and isinstance(body[0], ast.If):
                node = body[0]
                continue
            if any(isinstance(st, ast.Raise) for st in body):  # an unconditional raise of the branch (a guarded `if x: raise` inside it is a check, not the outcome)
                outcome = "raise"
            elif any(isinstance(n, ast.Call) and isinstance(n.func, ast.Name) and n.func.id == "Function" for st in body for n in ast.walk(st)):
                outcome = "Function"
            elif any(isinstance(st, ast.Assign) and isinstance(st.value, ast.Constant) and st.value.value is None for st in body):
                outcome = "None"
            break
        want = {0: "None", 1: "raise", 2: "Function"}[len(sub)]
        rep.add("R04.6", f"{top.qual}::kind for flags {sorted(sub) or '{}'}", outcome == want, loc(top.module, chain),
                f"-> {outcome}" if outcome == want else f"code with function flags {sorted(sub)} decodes as {outcome}; expected {want}")


def r046_kind(an, rep):
    """Function.type is exactly the one function-type flag the code carries (None without one): evaluated over every flag subset the
    compiler can produce for a function (at most one of the type flags)."""
    from sa.feval import BlockEval, BlockOutcome
    fnc = an.prog.cls("code_data::Function")
    t = an.tg.field_type(fnc.field("type"))
    lits = set()
    for x in (t[1] if t[0] == "union" else [t]):
        if x[0] == "literal":
            lits |= set(x[1])
    m = an.prog.module("code_data._code_data")
    sets = {}
    for name, exprs in m.assigns.items():
        if len(exprs) == 1 and isinstance(exprs[0], ast.Set):
            sets[name] = {e.value for e in exprs[0].elts if isinstance(e, ast.Constant)}
    top = None
    for f in an.closure("from_code"):
        if any(isinstance(n, ast.Call) and isinstance(n.func, ast.Name) and n.func.id == "Function" for n in ast.walk(f.node)):
            top = f
    if top is None:
        raise AnalysisError("function-kind inference not recognised")
    chain = None
    for st in top.node.body:
        if isinstance(st, ast.If) and any(isinstance(n, ast.Call) and isinstance(n.func, ast.Name) and n.func.id == "Function" for n in ast.walk(st)):
            chain = st
    call = next(n for n in ast.walk(chain) if isinstance(n, ast.Call) and isinstance(n.func, ast.Name) and n.func.id == "Function")
    fields = [fl.name for fl in fnc.fields]
    targ = None
    if len(call.args) > fields.index("type"):
        targ = call.args[fields.index("type")]
    for k in call.keywords:
        if k.arg == "type":
            targ = k.value
    if targ is None:
        rep.add("R04.6", f"{top.qual}::Function.type is passed", False, loc(top.module, call), "Function(...) is built without a type: every generator / coroutine decodes as a plain function")
        return
    flagvar = None
    for n in ast.walk(inline_locals(top.node, chain.test)):
        if isinstance(n, ast.Name) and n.id not in sets and n.id not in ("len",):
            flagvar = n.id
    for tset in [set()] + [{x} for x in sorted(lits)]:
        env = {k: frozenset(v) for k, v in sets.items()}
        env[flagvar] = set({"NEWLOCALS", "OPTIMIZED"} | tset)
        env.update({"len": len})
        be = BlockEval(lambda name: None, extra={})
        want = next(iter(tset)) if tset else None
        base_env = dict(env)
        placeholders = {}
        for _attempt in range(8):
          env = {k: (set(v) if isinstance(v, set) else v) for k, v in base_env.items()}
          env.update(placeholders)
          try:
            # the assignment(s) before the chain that the chain test reads (e.g. fn_flags = flags_data & FN_FLAGS)
            pre = [st for st in top.node.body[:top.node.body.index(chain)] if isinstance(st, ast.Assign) and len(st.targets) == 1 and isinstance(st.targets[0], ast.Name)
                   and any(isinstance(x, ast.Name) and x.id == st.targets[0].id for x in ast.walk(chain.test))]
            be.run_block(pre, env)
            env2, hit = be.run_block([chain], env, stop=call)
            got = be.ev(targ, env2) if hit else "<Function(...) not reached>"
            break
          except BlockOutcome as o:
            got = f"<{o.kind}: {norm_src(o.node)[:60]}>"
            break
          except FevalError as ex:
            msg = str(ex)
            if msg.startswith("free name ") and msg[10:] not in placeholders and msg[10:] != flagvar:
                # a value computed before the branch that does not bear on the flags (the constants tuple, the decoded Args): an empty placeholder
                placeholders[msg[10:]] = ()
                continue
            raise AnalysisError(f"{top.qual}: function-type inference not evaluable for flags {sorted(tset)}: {ex}")
        else:
            raise AnalysisError(f"{top.qual}: function-type inference not evaluable for flags {sorted(tset)}")
        ok = got == want
        rep.add("R04.6", f"{top.qual}::Function.type for type flags {sorted(tset) or '{}'}", ok, loc(top.module, call),
                f"-> {got!r}" if ok else f"a function whose code carries {sorted(tset) or 'none'} of the function-type flags decodes with type={got!r}; inspect classifies it as {want!r}")


def fold_flag_split(an, flagset):
    """Folds the decoder's function / non-function split and the statements after it up to the rejection of left-over flags for the given
    flag names: returns (outcome, top, chain) with outcome 'decodes' or '<raise|assert>: <statement>'."""
    from sa.feval import BlockEval, BlockOutcome
    m = an.prog.module("code_data._code_data")
    sets = {}
    for name, exprs in m.assigns.items():
        if len(exprs) == 1 and isinstance(exprs[0], ast.Set):
            sets[name] = {e.value for e in exprs[0].elts if isinstance(e, ast.Constant)}
    top = None
    for f in an.closure("from_code"):
        if any(isinstance(n, ast.Call) and isinstance(n.func, ast.Name) and n.func.id == "Function" for n in ast.walk(f.node)):
            top = f
    if top is None:
        raise AnalysisError("function-kind inference not recognised")
    chain = None
    for st in top.node.body:
        if isinstance(st, ast.If) and any(isinstance(n, ast.Call) and isinstance(n.func, ast.Name) and n.func.id == "Function" for n in ast.walk(st)):
            chain = st
    if chain is None:
        raise AnalysisError(f"{top.qual}: the function / non-function split is not a top-level if statement")
    idx = top.node.body.index(chain)
    flagvar = None
    for n in ast.walk(inline_locals(top.node, chain.test)):
        if isinstance(n, ast.Name) and n.id not in sets and n.id not in ("len",):
            flagvar = n.id
    tail = [chain]
    for st in top.node.body[idx + 1:]:
        tail.append(st)
        if isinstance(st, ast.If) and any(isinstance(x, ast.Raise) for x in ast.walk(st)) and any(isinstance(x, ast.Name) and x.id == flagvar for x in ast.walk(st.test)):
            break
    else:
        raise AnalysisError(f"{top.qual}: no rejection of left-over flags found after the function / non-function split")
    pre = [st for st in top.node.body[:idx] if isinstance(st, ast.Assign) and len(st.targets) == 1 and isinstance(st.targets[0], ast.Name)
           and any(isinstance(x, ast.Name) and x.id == st.targets[0].id for x in ast.walk(chain.test))]
    placeholders = {}
    for _attempt in range(8):
        env = {k: frozenset(v) for k, v in sets.items()}
        env[flagvar] = set(flagset)
        env["len"] = len
        env.update(placeholders)
        be = BlockEval(lambda name: None, extra={"Function": lambda *a, **k: ("Function", a, tuple(sorted(k.items()))), "cast": lambda t, v: v})
        be.arbitrary_pop = True
        try:
            be.run_block(pre, env)
            be.run_block(tail, env)
            return "decodes", top, chain
        except BlockOutcome as o:
            return f"{o.kind}: {norm_src(o.node)[:70]}", top, chain
        except FevalError as ex:
            msg = str(ex)
            if msg.startswith("free name ") and msg[10:] not in placeholders and msg[10:] != flagvar:
                placeholders[msg[10:]] = ()
                continue
            raise AnalysisError(f"{top.qual}: flag handling not evaluable for {sorted(flagset)}: {ex}")
    raise AnalysisError(f"{top.qual}: flag handling not evaluable for {sorted(flagset)}")


def r04i(an, rep):
    """inspect.signature renames an implicit parameter (the `.0` of a comprehension / generator expression) to `implicit0` and reports it positional-only
    (Lib/inspect.py _signature_from_function); the decoded Args has to keep the real name to re-encode the code object, and it reports the kind the slot has."""
    rep.rule("R04.I", "implicit parameters (`.0`) are reported as inspect.signature reports them", 1)
    fn = find_args_decoder(an)
    par = an.prog.function("code_data::Args.parameters")
    handled = False
    for f in [fn, par] + [g for g in an.closure("parameters")]:
        for c in ast.walk(f.node):
            if isinstance(c, ast.Call) and isinstance(c.func, ast.Attribute) and c.func.attr == "startswith" and c.args and isinstance(c.args[0], ast.Constant) and c.args[0].value == ".":
                handled = True
            if isinstance(c, ast.Constant) and isinstance(c.value, str) and c.value.startswith("implicit"):
                handled = True
    rep.add("R04.I", f"{fn.qual}::the implicit parameter `.0` of comprehension code", handled, loc(fn.module, fn.node),
            "names that start with '.' are given inspect's treatment" if handled else
            "every comprehension / generator-expression code object has the parameter `.0`: inspect.signature of a function built from it reports `(implicit0, /)` - renamed and positional-only - "
            "the decoded Args reports ('.0', POSITIONAL_OR_KEYWORD); nothing in the decoder or in Args.parameters treats such names")


def r046_many_kinds(an, rep, rule="R11.K"):
    """A function whose co_flags were altered by hand to carry two or three of GENERATOR / COROUTINE / ASYNC_GENERATOR cannot be described
    (Function.type holds one): from_code has to raise, not pick one and drop the others."""
    import itertools as _it
    rep.rule(rule, "code carrying more than one function-type flag is rejected, not decoded with one of them", 1)
    kinds = ["ASYNC_GENERATOR", "COROUTINE", "GENERATOR"]
    bad = []
    top = chain = None
    for r in (2, 3):
        for combo in _it.combinations(kinds, r):
            outcome, top, chain = fold_flag_split(an, {"NEWLOCALS", "OPTIMIZED", *combo})
            if outcome == "decodes":
                bad.append(combo)
    rep.add(rule, f"{top.qual}::more than one function-type flag is rejected", not bad, loc(top.module, chain),
            "each of the 4 combinations of two or three function-type flags makes from_code raise" if not bad else
            f"a function whose co_flags carry {list(bad[0])} (altered by hand) decodes without complaint: Function.type holds one of them, the other is dropped, and to_code() "
            f"writes co_flags without it - silently lossy data")


def r046_module_await(an, rep):
    """Module code compiled with ast.PyCF_ALLOW_TOP_LEVEL_AWAIT (3.8+: the asyncio REPL, IPython, `compile(..., flags=...)`) that awaits at top level
    carries CO_COROUTINE without being a function: it has to decode (with type None), not be rejected."""
    from sa.feval import BlockEval, BlockOutcome
    m = an.prog.module("code_data._code_data")
    sets = {}
    for name, exprs in m.assigns.items():
        if len(exprs) == 1 and isinstance(exprs[0], ast.Set):
            sets[name] = {e.value for e in exprs[0].elts if isinstance(e, ast.Constant)}
    top = None
    for f in an.closure("from_code"):
        if any(isinstance(n, ast.Call) and isinstance(n.func, ast.Name) and n.func.id == "Function" for n in ast.walk(f.node)):
            top = f
    if top is None:
        raise AnalysisError("function-kind inference not recognised")
    chain = None
    for st in top.node.body:
        if isinstance(st, ast.If) and any(isinstance(n, ast.Call) and isinstance(n.func, ast.Name) and n.func.id == "Function" for n in ast.walk(st)):
            chain = st
    idx = top.node.body.index(chain)
    flagvar = None
    for n in ast.walk(inline_locals(top.node, chain.test)):
        if isinstance(n, ast.Name) and n.id not in sets and n.id not in ("len",):
            flagvar = n.id
    # the statements from the chain to the first statement after it that can raise on left-over flags
    tail = [chain]
    for st in top.node.body[idx + 1:]:
        tail.append(st)
        if isinstance(st, ast.If) and any(isinstance(x, ast.Raise) for x in ast.walk(st)) and any(isinstance(x, ast.Name) and x.id == flagvar for x in ast.walk(st.test)):
            break
    else:
        raise AnalysisError(f"{top.qual}: no rejection of left-over flags found after the function / non-function split")
    pre = [st for st in top.node.body[:idx] if isinstance(st, ast.Assign) and len(st.targets) == 1 and isinstance(st.targets[0], ast.Name)
           and any(isinstance(x, ast.Name) and x.id == st.targets[0].id for x in ast.walk(chain.test))]
    placeholders = {}
    outcome = None
    for _attempt in range(8):
        env = {k: frozenset(v) for k, v in sets.items()}
        env[flagvar] = {"COROUTINE"}
        env["len"] = len
        env.update(placeholders)
        be = BlockEval(lambda name: None, extra={})
        try:
            be.run_block(pre, env)
            be.run_block(tail, env)
            outcome = "decodes"
            break
        except BlockOutcome as o:
            outcome = f"{o.kind}: {norm_src(o.node)[:70]}"
            break
        except FevalError as ex:
            msg = str(ex)
            if msg.startswith("free name ") and msg[10:] not in placeholders and msg[10:] != flagvar:
                placeholders[msg[10:]] = ()
                continue
            raise AnalysisError(f"{top.qual}: non-function code with CO_COROUTINE not evaluable: {ex}")
    ok = outcome == "decodes"
    rep.add("R04.6", f"{top.qual}::module code with top-level await (CO_COROUTINE, no function flags) decodes", ok, loc(top.module, chain),
            "the function-type flags are taken off also for code that is not a function" if ok else
            f"for code with flags {{COROUTINE}} and neither NEWLOCALS nor OPTIMIZED the decoder ends in `{outcome}`: a module compiled with ast.PyCF_ALLOW_TOP_LEVEL_AWAIT that awaits "
            f"at top level (asyncio REPL, IPython) cannot be decoded - it should decode with type None", config="3.8+")


def _schema_enum(an):
    m = an.prog.module("code_data")
    for name, exprs in m.assigns.items():
        for e in exprs:
            for n in ast.walk(e):
                if isinstance(n, ast.Dict):
                    for k, v in zip(n.keys, n.values):
                        if isinstance(k, ast.Constant) and k.value == "Function" and isinstance(v, ast.Dict):
                            for d in ast.walk(v):
                                if isinstance(d, ast.Dict):
                                    for k2, v2 in zip(d.keys, d.values):
                                        if isinstance(k2, ast.Constant) and k2.value == "enum":
                                            try:
                                                return set(ast.literal_eval(v2))
                                            except Exception:
                                                pass
    return set()


def r047(an, rep):
    """len(args) is the number of parameters the code object has - co_argcount + co_kwonlyargcount + one for *args + one for **kwargs - also when two of
    them carry the same name (a hand-altered co_varnames: CPython binds every slot, a mapping keyed by name holds fewer).  Args.__len__ is folded over
    Args witnesses."""
    from sa.feval import BlockOutcome
    from .c03 import package_evaluator
    api = an.prog.function("code_data::Args.__len__")
    W = [
        ("every kind, distinct names", dict(positional_only=("a", "b"), positional_or_keyword=("c",), var_positional="x", keyword_only=("d", "e", "f"), var_keyword=None), 7),
        ("no parameters", dict(), 0),
        ("only * and **", dict(var_positional="args", var_keyword="kw"), 2),
        ("an empty name for **kwargs", dict(positional_or_keyword=("a",), var_keyword=""), 2),
        ("names that repeat (co_varnames ('a', 'b', 'd', 'b', 'a') of def f(a, b, *c, d, **e))", dict(positional_or_keyword=("a", "b"), var_positional="b", keyword_only=("d",), var_keyword="a"), 5),
    ]
    bad = []
    for name, kw, want in W:
        ev, _R = package_evaluator(an, api.module, (3, 10))
        try:
            got = ev.call_method(api.node, ev.lib["Args"](**kw))
        except BlockOutcome as o:
            got = f"stops at `{norm_src(o.node)[:40]}`"
        except Exception as ex:  # noqa: BLE001 - a gap of the evaluator, never a verdict
            raise AnalysisError(f"{api.qual}: not evaluable on the witness Args '{name}' ({type(ex).__name__}: {ex})")
        if got != want or isinstance(got, bool):
            bad.append(f"{name}: len(args) is {got!r}, the code object has {want} parameters")
    rep.add("R04.7", f"{api.qual}::len(args) counts the parameters", not bad, loc(api.module, api.node),
            f"{len(W)} Args witnesses (every kind, none, an empty name, repeated names): the number of parameter slots" if not bad else bad[0] + (f" (+{len(bad) - 1} more)" if len(bad) > 1 else ""))


def r04f(an, rep, rule="R04.W", roundtrip=False):
    """The function that builds a CodeData from a code object, folded over witness code objects (as records of their co_* attributes) for every
    kind of scope; the flag-word conversion is replaced by the reference table of the interpreter (C11 decides that conversion).  Expected, from
    how CPython binds arguments (co_varnames = positional..., keyword-only..., *args, **kwargs; co_posonlyargcount from 3.8) and from
    inspect / funcobject.c: the parameter kinds in signature order, len(args), __doc__ = co_consts[0] iff that is a str, the kind of function
    from CO_GENERATOR / CO_COROUTINE / CO_ASYNC_GENERATOR, and type None for module and class-body code (also a class body that owns __class__)."""
    from sa.feval import BlockOutcome, Obj
    from .c03 import package_evaluator
    from .c11 import reference as _ref
    from reference.line_tables import asm_linetable
    rep.rule(rule, "the decoder's header logic folded over witness code objects of every kind of scope", 4)
    top = None
    for f in an.closure("from_code"):
        if isinstance(f.node, ast.FunctionDef) and f.cls is None and len(f.params) == 1 and any(isinstance(c, ast.Call) and isinstance(c.func, ast.Name) and c.func.id == "CodeData" for c in ast.walk(f.node)):
            top = f
    if top is None:
        raise AnalysisError("the function that builds a CodeData from a code object was not found")
    enc_top = None
    if roundtrip:
        for f in an.closure("to_code"):
            if isinstance(f.node, ast.FunctionDef) and f.cls is None and len(f.params) == 1 and any(isinstance(c, ast.Call) and isinstance(c.func, ast.Name) and c.func.id == "CodeType" for c in ast.walk(f.node)):
                enc_top = f
        if enc_top is None:
            raise AnalysisError("the function that builds a code object from a CodeData was not found")
    import reference.contracts as _C
    FN = ("OPTIMIZED", "NEWLOCALS")
    # (name, flags, argcount, posonly, kwonly, varnames, consts, cellvars, co_name, expected (posonly, pos_or_kw, var_pos, kwonly, var_kw) or None, docstring, type)
    W = [
        ("def f(p, /, a, *args, k, **kw) with a local and a docstring", FN + ("VARARGS", "VARKEYWORDS", "NOFREE"), 2, 1, 1, ("p", "a", "k", "args", "kw", "loc"), ("doc", None), (), "f",
         (("p",), ("a",), "args", ("k",), "kw"), "doc", None),
        ("def f(a, *, k1, k2, **kw)", FN + ("VARKEYWORDS", "NOFREE"), 1, 0, 2, ("a", "k1", "k2", "kw"), (None,), (), "f", ((), ("a",), None, ("k1", "k2"), "kw"), None, None),
        ("def f(*args) with a local", FN + ("VARARGS", "NOFREE"), 0, 0, 0, ("args", "x"), (None,), (), "f", ((), (), "args", (), None), None, None),
        ("def f(**kw)", FN + ("VARKEYWORDS", "NOFREE"), 0, 0, 0, ("kw",), (None,), (), "f", ((), (), None, (), "kw"), None, None),
        ("def f(a, b, /) with an empty docstring", FN + ("NOFREE",), 2, 2, 0, ("a", "b"), ("", None), (), "f", (("a", "b"), (), None, (), None), "", None),
        ("def f(): first constant is bytes", FN + ("NOFREE",), 0, 0, 0, (), (b"doc", None), (), "f", ((), (), None, (), None), None, None),
        ("a generator expression", FN + ("GENERATOR", "NESTED", "NOFREE"), 1, 0, 0, (".0", "x"), (None,), (), "<genexpr>", None, None, "GENERATOR"),
        ("def g(a): yield", FN + ("GENERATOR", "NOFREE"), 1, 0, 0, ("a",), (None,), (), "g", ((), ("a",), None, (), None), None, "GENERATOR"),
        ("async def c(*, k)", FN + ("COROUTINE", "NOFREE"), 0, 0, 1, ("k",), (None,), (), "c", ((), (), None, ("k",), None), None, "COROUTINE"),
        ("async def ag(): yield", FN + ("ASYNC_GENERATOR", "NOFREE"), 0, 0, 0, (), ("doc",), (), "ag", ((), (), None, (), None), "doc", "ASYNC_GENERATOR"),
        ("a function with a cell variable", FN, 1, 0, 0, ("a",), (None,), ("a",), "outer", ((), ("a",), None, (), None), None, None),
        ("a module", ("NOFREE",), 0, 0, 0, (), ("doc", None), (), "<module>", "nofunc", None, None),
        # 3.8 / 3.9 modules whose first statement is a multi-line display: the first instruction carries a line before co_firstlineno
        ("a module under `from __future__ import annotations`", ("NOFREE", "annotations"), 0, 0, 0, (), ("doc", None), (), "<module>", "nofunc", None, None),
        ("a function under `from __future__ import annotations`", FN + ("NOFREE", "annotations"), 1, 0, 0, ("a",), (None,), (), "f", ((), ("a",), None, (), None), None, None),
        ("a module whose first instruction is one line above co_firstlineno", ("NOFREE",), 0, 0, 0, (), (1, None), (), "<module>", "nofunc", None, None),
        ("a class body that owns the __class__ cell", (), 0, 0, 0, (), ("C", None), ("__class__",), "C", "nofunc", None, None),
        # 3.7 - 3.9: a statement the compiler removed behind the last `return` leaves a co_lnotab entry at len(co_code); with co_firstlineno = 3
        # it only reads back when the trailing line is made relative together with every other line
        ("a function whose line table ends in an entry behind the last instruction", FN + ("NOFREE",), 1, 0, 0, ("a",), (None,), (), "f", ((), ("a",), None, (), None), None, None),
        ("a function whose constant is a string with a lone surrogate", FN + ("NOFREE",), 0, 0, 0, (), (None, "\ud83d x"), (), "f", ((), (), None, (), None), None, None),
        ("a function whose constant is a tuple with bytes, -0.0 and a surrogate inside", FN + ("NOFREE",), 0, 0, 0, (), (None, (b"\xff", -0.0, ("\udcff",), frozenset({1.0}))), (), "f", ((), (), None, (), None), None, None),
        ("a class body inside a function that reads a local of that function", ("NESTED",), 0, 0, 0, (), ("C", None), ((), ("x",)), "C", "nofunc", None, None),
        ("a nested function that reads a local of the enclosing function", FN + ("NESTED",), 1, 0, 0, ("a",), (None,), ((), ("x", "y")), "inner", ((), ("a",), None, (), None), None, None),
    ]
    for V in VERSIONS:
        R = _ref(V)
        names_of = {int(k): v for k, v in R["COMPILER_FLAG_NAMES"].items()}
        val_of = {v: k for k, v in names_of.items()}
        val_of.update({k: v for k, v in R["future_flags"].items() if v and str(v) not in R["COMPILER_FLAG_NAMES"]})
        om = R["opmap"]

        def to_flags(word):
            out, rest = set(), word
            for name, bit in val_of.items():
                if word & bit:
                    out.add(name)
                    rest &= ~bit
            if rest:
                raise ValueError("unknown flag bits")
            return out
        bad = []
        bad_rt = []
        for wname, flags, argc, posonly, kwonly, varnames, consts, cellvars, coname, exp_args, exp_doc, exp_type in W:
            if V < (3, 8):
                if exp_args not in (None, "nofunc") and posonly:
                    exp_args = ((), exp_args[0] + exp_args[1]) + exp_args[2:]
                posonly_attr = {}
            else:
                posonly_attr = {"co_posonlyargcount": posonly}
            freevars = ()
            if len(cellvars) == 2 and isinstance(cellvars[0], tuple):
                cellvars, freevars = cellvars
            word = 0
            for f_ in flags:
                word |= val_of[f_]
            is_fn = "OPTIMIZED" in flags
            locs = list(range(len(varnames))) if is_fn else []
            codeb = bytes([x for i_ in reversed(locs) for x in (om["LOAD_FAST"], i_)] + [om["LOAD_CONST"], len(consts) - 1, om["RETURN_VALUE"], 0])
            above_first = "one line above co_firstlineno" in wname
            code = Obj({"__cls__": "code", "co_code": codeb, "co_consts": tuple(consts), "co_names": (), "co_varnames": tuple(varnames), "co_freevars": tuple(freevars), "co_cellvars": tuple(cellvars),
                        "co_flags": word, "co_argcount": argc, "co_kwonlyargcount": kwonly, "co_nlocals": len(varnames), "co_stacksize": 1, "co_filename": "f.py", "co_name": coname,
                        "co_firstlineno": 3, **posonly_attr})
            if V >= (3, 10):
                code["co_linetable"] = asm_linetable([(0, -1 if above_first else 0)] + ([(2, 0)] if above_first else []), len(codeb))
            else:
                code["co_lnotab"] = bytes([0, 255, 2, 1]) if above_first else (bytes([0, 1, len(codeb), 1]) if "an entry behind the last instruction" in wname else b"")
            def from_flags(names_):
                w_ = 0
                for n_ in names_:
                    w_ |= val_of[n_]
                return w_
            _NoCode = type("NotACodeObject", (), {})
            ev, _R = package_evaluator(an, top.module, V, stubs={"to_flags_data": to_flags, "from_flags_data": from_flags, "CodeType": _NoCode})
            try:
                got = ev.call_method(top.node, code)
            except BlockOutcome as o:
                bad.append(f"{wname}: from_code stops at `{norm_src(o.node)[:60]}`")
                continue
            except AnalysisError:
                raise
            except Exception as ex:  # noqa: BLE001 - a gap of the evaluator, never a verdict
                raise AnalysisError(f"{top.qual}: not evaluable on the witness code object '{wname}' ({type(ex).__name__}: {ex})")
            if not isinstance(got, Obj) or got.get("__cls__") != "CodeData":
                raise AnalysisError(f"{top.qual}: the result on the witness code object is not a CodeData")
            tp = got.get("type")
            why = None
            # the one instruction that loads a constant loads co_consts[-1]: the value itself, type- and bit-exact
            loaded = [i.get("arg") for b in (got.get("blocks") or ()) for i in b if isinstance(i, Obj) and i.get("name") == "LOAD_CONST"]
            wantc = consts[-1]
            fast = [i.get("arg") for b in (got.get("blocks") or ()) for i in b if isinstance(i, Obj) and i.get("name") == "LOAD_FAST"]
            want_fast = [varnames[i_] for i_ in reversed(locs)]
            got_fast = [a.get("varname") if isinstance(a, Obj) else a for a in fast]
            if got_fast != want_fast:
                why = f"LOAD_FAST {list(reversed(locs))} load {want_fast} in CPython (co_varnames by position), the decoded operands name {got_fast}"
            elif len(loaded) != 1 or not isinstance(loaded[0], Obj) or loaded[0].get("__cls__") != "Constant":
                why = f"the LOAD_CONST instruction is decoded as {loaded!r}"
            elif repr(loaded[0].get("constant")) != repr(wantc) or type(loaded[0].get("constant")) is not type(wantc):
                why = f"LOAD_CONST loads {ascii(wantc)} in CPython, the decoded operand is {ascii(loaded[0].get('constant'))}"
            if not why:
                # a field declared `bool` holds a bool: the JSON form writes the value as it is and the published schema says boolean
                # (a flag bit kept as `word & BIT` is 16, equal to nothing the schema or == True accepts)
                cd_cls = next((m_.classes["CodeData"] for m_ in an.prog.modules.values() if "CodeData" in m_.classes), None)
                if cd_cls is None:
                    raise AnalysisError("class CodeData not found")
                for fld in cd_cls.fields:
                    ann = getattr(fld, "annotation", None)
                    if isinstance(ann, ast.Name) and ann.id == "bool" and fld.name in got and type(got.get(fld.name)) is not bool:
                        why = f"field {fld.name} is declared bool (boolean in the JSON schema) and holds {got.get(fld.name)!r} of type {type(got.get(fld.name)).__name__}"
            if why:
                pass
            elif exp_args == "nofunc":
                if tp is not None:
                    why = f"type is {tp.get('__cls__') if isinstance(tp, Obj) else tp!r}, expected None for code that is not a function"
            elif not isinstance(tp, Obj) or tp.get("__cls__") != "Function":
                why = f"type is {tp!r}, expected a Function"
            else:
                if tp.get("type") != exp_type:
                    why = f"kind of function {tp.get('type')!r}; the flags say {exp_type!r} (what inspect.isgeneratorfunction / iscoroutinefunction / isasyncgenfunction report)"
                elif tp.get("docstring") != exp_doc or type(tp.get("docstring")) is not type(exp_doc):
                    why = f"docstring {tp.get('docstring')!r}; __doc__ is {exp_doc!r} (co_consts[0] is {consts[0]!r})"
                elif exp_args is not None:
                    a = tp.get("args")
                    gota = tuple(a.get(k) for k in ("positional_only", "positional_or_keyword", "var_positional", "keyword_only", "var_keyword")) if isinstance(a, Obj) else None
                    if gota != exp_args:
                        why = f"parameters (positional-only, positional-or-keyword, *, keyword-only, **) = {gota}; CPython binds {exp_args}"
            if why:
                bad.append(f"{wname}: {why}")
            elif roundtrip:
                # ... and back: what the encoder hands to CodeType, slot by slot, is what the witness code object holds
                slots = _C.CODE_SLOTS[V]
                ev.lib["CodeType"] = lambda *a_: Obj({"__cls__": "code_out", "args": a_})
                try:
                    out = ev.call_method(enc_top.node, got)
                except BlockOutcome as o:
                    bad_rt.append(f"{wname}: to_code stops at `{norm_src(o.node)[:60]}`")
                    continue
                except AnalysisError:
                    raise
                except Exception as ex:  # noqa: BLE001 - a gap of the evaluator, never a verdict
                    raise AnalysisError(f"{enc_top.qual}: not evaluable on the data decoded from the witness code object '{wname}' ({type(ex).__name__}: {ex})")
                if not isinstance(out, Obj) or out.get("__cls__") != "code_out" or len(out["args"]) != len(slots):
                    bad_rt.append(f"{wname}: CodeType is called with {len(out['args']) if isinstance(out, Obj) and 'args' in out else '?'} arguments, code() of {vname(V)} takes {len(slots)}")
                    continue
                for sname, val in zip(slots, out["args"]):
                    attr = "co_" + sname
                    want = code.get(attr)
                    if repr(val) != repr(want) or type(val) is not type(want):
                        bad_rt.append(f"{wname}: slot {sname} of the re-encoded object is {ascii(val)[:60]}, the code object has {attr} = {ascii(want)[:60]}")
                        break
        if roundtrip:
            rep.add(rule, f"{enc_top.qual}::round trip of witness code objects [{vname(V)}]", not bad_rt, loc(enc_top.module, enc_top.node),
                    f"{len(W) - len(bad)} witness code objects decoded and encoded again: every argument of CodeType equals the attribute it came from (counts, flags word, code units, tables, names, first line, line table)"
                    if not bad_rt else bad_rt[0] + (f" (+{len(bad_rt) - 1} more)" if len(bad_rt) > 1 else ""))
        rep.add(rule, f"{top.qual}::witness code objects [{vname(V)}]", not bad, loc(top.module, top.node),
                f"{len(W)} witness code objects (every parameter kind, bare *, empty / bytes first constant, generator expression, coroutine, async generator, cell owner, module, class body with __class__)"
                if not bad else bad[0] + (f" (+{len(bad) - 1} more)" if len(bad) > 1 else ""))
