"""Structural model of the JSON codec and schema shared by C07 and C15."""
from __future__ import annotations

import ast
from typing import Dict, List, Optional, Set, Tuple

from sa.analysis import Analysis
from sa.model import AnalysisError, FunctionInfo, loc, norm_src

from .common import isinstance_arms, returns_of


def literal_with_holes(node):
    """ast -> python value; non-literal sub-expressions become None."""
    if isinstance(node, ast.Constant):
        return node.value
    if isinstance(node, ast.Dict):
        return {literal_with_holes(k): literal_with_holes(v) for k, v in zip(node.keys, node.values) if k is not None}
    if isinstance(node, (ast.List, ast.Tuple)):
        return [literal_with_holes(e) for e in node.elts]
    if isinstance(node, ast.UnaryOp) and isinstance(node.op, ast.USub) and isinstance(node.operand, ast.Constant):
        return -node.operand.value
    return None


def load_schema(an: Analysis) -> Tuple[dict, dict]:
    m = an.prog.module("code_data")
    if "JSON_SCHEMA" not in m.assigns:
        raise AnalysisError("JSON_SCHEMA not found in code_data/__init__.py")
    top = m.assigns["JSON_SCHEMA"][0]
    defs_node = None
    if isinstance(top, ast.Dict):
        for k, v in zip(top.keys, top.values):
            if isinstance(k, ast.Constant) and k.value == "definitions":
                defs_node = v
    if isinstance(defs_node, ast.Name):
        defs_node = m.assigns[defs_node.id][0]
    if not isinstance(defs_node, ast.Dict):
        raise AnalysisError("JSON_SCHEMA['definitions'] is not a dict display")
    defs = literal_with_holes(defs_node)
    _apply_module_level_edits(an, m, defs)
    root = literal_with_holes(top)
    root["definitions"] = defs
    return root, defs


def _apply_module_level_edits(an: Analysis, m, defs: dict):
    """
    The schema is a literal; later module-level statements that edit it (e.g. a loop closing every object definition) are applied
    to the parsed literal when they are in the small language {for x in D.values()/items(): [if <test>:] x[<const>] = <const>}, else refused.
    """
    from sa.feval import FevalError, feval
    names = {n for n, exprs in m.assigns.items() if any(isinstance(e, ast.Dict) for e in exprs) and n in ("_definitions", "JSON_SCHEMA")}
    for st in m.tree.body:
        if isinstance(st, (ast.Assign, ast.AnnAssign, ast.ImportFrom, ast.Import, ast.ClassDef, ast.FunctionDef, ast.Delete)):
            if isinstance(st, ast.Assign) and any(isinstance(t, ast.Subscript) and isinstance(t.value, ast.Name) and t.value.id in names for t in st.targets):
                raise AnalysisError(f"code_data/__init__.py:{st.lineno}: the schema literal is modified by an assignment the analyser does not interpret")
            continue
        touches = any(isinstance(x, ast.Name) and x.id in names for x in ast.walk(st))
        if not touches:
            continue
        if isinstance(st, ast.For) and isinstance(st.iter, ast.Call) and isinstance(st.iter.func, ast.Attribute) and st.iter.func.attr in ("values", "items") \
                and isinstance(st.iter.func.value, ast.Name) and st.iter.func.value.id == "_definitions":
            var = st.target.id if isinstance(st.target, ast.Name) else (st.target.elts[1].id if isinstance(st.target, ast.Tuple) and len(st.target.elts) == 2 else None)
            if var is None:
                raise AnalysisError(f"code_data/__init__.py:{st.lineno}: loop over the schema definitions not understood")
            for d in defs.values():
                if not isinstance(d, dict):
                    continue

                def run(stmts):
                    for b in stmts:
                        if isinstance(b, ast.If):
                            try:
                                tv = feval(b.test, {var: d})
                            except FevalError as ex:
                                raise AnalysisError(f"code_data/__init__.py:{b.lineno}: schema edit condition not evaluable: {ex}")
                            run(b.body if tv else b.orelse)
                        elif isinstance(b, ast.Assign) and isinstance(b.targets[0], ast.Subscript) and isinstance(b.targets[0].value, ast.Name) and b.targets[0].value.id == var \
                                and isinstance(b.targets[0].slice, ast.Constant):
                            d[b.targets[0].slice.value] = literal_with_holes(b.value)
                        elif isinstance(b, (ast.Pass, ast.Expr)):
                            continue
                        else:
                            raise AnalysisError(f"code_data/__init__.py:{b.lineno}: schema edit statement not understood")
                run(st.body)
        else:
            raise AnalysisError(f"code_data/__init__.py:{st.lineno}: module-level statement modifies the schema in a way the analyser does not interpret")


def deref(defs: dict, node: dict, depth=0) -> dict:
    while isinstance(node, dict) and "$ref" in node and depth < 10:
        name = node["$ref"].split("/")[-1]
        if name not in defs:
            raise AnalysisError(f"schema $ref to missing definition {name}")
        node = defs[name]
        depth += 1
    return node


# ---------------------------------------------------------------- shapes
# shape terms: 'string' 'integer' 'number' 'boolean' 'null' ('tag', frozenset(keys)) ('array', elemtype) ('class', qual)


def schema_accepts(defs: dict, node, shape, depth=0) -> bool:
    """Does the schema node accept a JSON value of this shape (structural, conservative on the schema side)?"""
    if depth > 12 or node is None:
        return True
    node = deref(defs, node)
    if not isinstance(node, dict):
        return True
    if "anyOf" in node:
        return any(schema_accepts(defs, alt, shape, depth + 1) for alt in node["anyOf"])
    t = node.get("type")
    if t is None:
        return True  # unconstrained
    if isinstance(t, (list, tuple)):
        # "type": ["integer", "null"] - any of the listed types
        return any(schema_accepts(defs, dict(node, type=one), shape, depth + 1) for one in t)
    if shape == "string":
        return t == "string"
    if shape == "integer":
        return t in ("integer", "number")
    if shape == "number":
        return t == "number"
    if shape == "boolean":
        return t == "boolean"
    if shape == "null":
        return t == "null"
    if isinstance(shape, tuple) and shape[0] == "tag":
        if t != "object":
            return False
        req = set(node.get("required") or [])
        props = set((node.get("properties") or {}).keys())
        return req <= set(shape[1]) and (not props or set(shape[1]) <= props or node.get("additionalProperties", True))
    if isinstance(shape, tuple) and shape[0] == "array":
        return t == "array"
    if isinstance(shape, tuple) and shape[0] == "class":
        return t == "object"
    return True


def find_json_functions(an: Analysis):
    """(value_to_json-like encoder, constant decoder, arg decoder, instruction decoder, code-data decoder)"""
    it_o, _ = an.interp("to_json")
    it_i, _ = an.interp("from_json")
    enc = None
    for f in an.closure("to_json"):
        arms, _ = isinstance_arms(f, f.params[0]) if f.params else ([], [])
        if len(arms) >= 5:
            enc = f
    if enc is None:
        raise AnalysisError("JSON encoder type dispatch not found")
    cdec = None
    for f in an.closure("from_json"):
        tests = [n for n in ast.walk(f.node) if isinstance(n, ast.Compare) and isinstance(n.ops[0], ast.In) and isinstance(n.left, ast.Constant)
                 and n.left.value in ("int", "float", "bytes", "frozenset")]
        if len(tests) >= 3:
            cdec = f
    if cdec is None:
        raise AnalysisError("JSON constant decoder not found")
    return enc, cdec


def encoder_tags(enc: FunctionInfo) -> List[Tuple[Set[str], ast.AST]]:
    """Key sets of the tagged dict displays returned by non-dataclass arms."""
    out = []
    for n in ast.walk(enc.node):
        if isinstance(n, ast.Return) and isinstance(n.value, ast.Dict) and n.value.keys and all(isinstance(k, ast.Constant) for k in n.value.keys):
            out.append(({k.value for k in n.value.keys}, n))
    return out


def decoder_tags(cdec: FunctionInfo) -> List[Tuple[str, Set[str], ast.If]]:
    """(tested key, keys read in the arm, node)"""
    out = []
    p = cdec.params[0]
    for n in ast.walk(cdec.node):
        if isinstance(n, ast.If):
            keys = []
            for c in ast.walk(n.test):
                if isinstance(c, ast.Compare) and len(c.ops) == 1 and isinstance(c.ops[0], ast.In) and isinstance(c.left, ast.Constant) \
                        and isinstance(c.left.value, str) and isinstance(c.comparators[0], ast.Name) and c.comparators[0].id == p:
                    keys.append(c.left.value)
            if len(keys) == 1:
                read = set()
                for b in n.body:
                    for s in ast.walk(b):
                        if isinstance(s, ast.Subscript) and isinstance(s.value, ast.Name) and s.value.id == p and isinstance(s.slice, ast.Constant):
                            read.add(s.slice.value)
                for s in ast.walk(n.test):
                    if isinstance(s, ast.Subscript) and isinstance(s.value, ast.Name) and s.value.id == p and isinstance(s.slice, ast.Constant):
                        read.add(s.slice.value)
                out.append((keys[0], read, n))
    return out


def string_constants(node) -> Set[str]:
    return {n.value for n in ast.walk(node) if isinstance(n, ast.Constant) and isinstance(n.value, str)}


def validate(defs: dict, node, value, depth=0):
    """Minimal JSON-Schema (draft-04 subset used by JSON_SCHEMA) validator: returns None if valid else a reason."""
    import re
    if depth > 40 or node is None or not isinstance(node, dict):
        return None
    if "$ref" in node:
        name = node["$ref"].split("/")[-1]
        if name not in defs:
            return f"dangling $ref {name}"
        return validate(defs, defs[name], value, depth + 1)
    if "anyOf" in node:
        reasons = [validate(defs, alt, value, depth + 1) for alt in node["anyOf"]]
        if all(r is not None for r in reasons):
            return "no anyOf alternative accepts it (" + "; ".join(sorted(set(r for r in reasons if r))[:3]) + ")"
    t = node.get("type")
    if isinstance(t, (list, tuple)):
        whys = [validate(defs, dict(node, type=one), value, depth + 1) for one in t]
        if all(w is not None for w in whys):
            return f"none of the types {list(t)} accepts it"
        t = None
    if t is not None:
        ok = {"string": isinstance(value, str), "integer": isinstance(value, int) and not isinstance(value, bool),
              "number": isinstance(value, (int, float)) and not isinstance(value, bool), "boolean": isinstance(value, bool),
              "null": value is None, "object": isinstance(value, dict), "array": isinstance(value, list)}.get(t, True)
        if not ok:
            return f"type {t} expected"
    if "enum" in node and value not in node["enum"]:
        return f"not in enum {node['enum']}"
    if isinstance(value, str):
        if "pattern" in node and node["pattern"] is not None and re.search(node["pattern"], value) is None:
            return f"does not match pattern {node['pattern']!r}"
        if "minLength" in node and len(value) < node["minLength"]:
            return f"shorter than minLength {node['minLength']}"
        if "maxLength" in node and len(value) > node["maxLength"]:
            return f"longer than maxLength {node['maxLength']}"
    if isinstance(value, (int, float)) and not isinstance(value, bool):
        if "minimum" in node and value < node["minimum"]:
            return f"below minimum {node['minimum']}"
        if "maximum" in node and value > node["maximum"]:
            return f"above maximum {node['maximum']}"
    if isinstance(value, dict):
        for r in node.get("required") or []:
            if r not in value:
                return f"required key {r!r} missing"
        props = node.get("properties") or {}
        for k, v in value.items():
            if k in props:
                why = validate(defs, props[k], v, depth + 1)
                if why:
                    return f"{k}: {why}"
            elif node.get("additionalProperties") is False:
                return f"additional property {k!r}"
    if isinstance(value, list):
        if "minItems" in node and len(value) < node["minItems"]:
            return "too few items"
        if "maxItems" in node and len(value) > node["maxItems"]:
            return "too many items"
        if node.get("uniqueItems") and any(value[i_] == value[j_] and type(value[i_]) is type(value[j_]) for i_ in range(len(value)) for j_ in range(i_)):
            return "items are not unique"
        it = node.get("items")
        if isinstance(it, dict):
            for x in value:
                why = validate(defs, it, x, depth + 1)
                if why:
                    return f"item: {why}"
    return None


# Witness documents for each tagged constant shape.  They follow from the contracts of the builtins the encoder applies
# (str(int) is -?[0-9]+; ascii(str) is a quoted ASCII literal; base64 alphabet) and from the tag sets of R07.1 - not from running it.
CONSTANT_WITNESSES = [
    ("huge positive int", {"int": "9007199254740992"}),
    ("huge negative int", {"int": "-9007199254740992"}),
    ("very long int", {"int": "1" + "0" * 40}),
    ("+inf", {"float": "inf"}), ("-inf", {"float": "-inf"}), ("nan", {"float": "nan"}),
    ("string with a lone surrogate", {"string": "'\\ud800 doc'"}),
    ("string with quotes and a surrogate", {"string": "'\\udc80\"\\'x'"}),
    ("empty bytes", {"bytes": ""}), ("bytes", {"bytes": "AP8="}),
    ("ellipsis", {"type": "ellipsis"}),
    ("complex", {"real": 1.5, "imag": -0.0}), ("complex with nan / inf", {"real": {"float": "nan"}, "imag": {"float": "-inf"}}),
    ("frozenset", {"frozenset": [1, "a", {"bytes": "AA=="}]}), ("empty frozenset", {"frozenset": []}),
    ("tuple", [1, [2.5, None], {"int": "-99999999999999999999"}]), ("empty tuple", []),
    ("bool", True), ("none", None), ("small int", -7), ("float", -0.0), ("plain string", "x"),
]
# every tagged shape can also sit inside a tuple or a frozenset constant (`a[..., 0]` loads the tuple (Ellipsis, 0); `x in {b"a", 2 ** 70}`)
_LEAVES = [w for w in CONSTANT_WITNESSES if w[0] in ("huge negative int", "nan", "-inf", "string with a lone surrogate", "bytes", "ellipsis", "complex with nan / inf",
                                                     "bool", "none", "small int", "float", "plain string", "empty tuple", "empty frozenset")]
CONSTANT_WITNESSES += [(f"tuple holding {n} / another tuple holding it", [d, [d]]) for n, d in _LEAVES]
CONSTANT_WITNESSES += [(f"frozenset holding {n} / a tuple holding it", {"frozenset": [d, [d]]}) for n, d in _LEAVES]
# NaN is unequal to itself: `x in {1e999 - 1e999, -(1e999 - 1e999), 1}` folds to a frozenset with two NaN members, which the document writes as two
# identical items (so do two equal tuples that each hold a NaN); a tuple may repeat any member
CONSTANT_WITNESSES += [("frozenset with two NaN members", {"frozenset": [{"float": "nan"}, {"float": "nan"}, 1]}),
                       ("frozenset with two complex NaN members", {"frozenset": [{"real": {"float": "nan"}, "imag": 0.0}, {"real": {"float": "nan"}, "imag": 0.0}]}),
                       ("tuple with a repeated member", [1, 1, {"float": "nan"}, {"float": "nan"}])]
