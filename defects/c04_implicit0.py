# interpreters: 3.7.16, 3.8.18, 3.9.18, 3.10.13 (all fail)
# Every comprehension / generator expression: inspect.signature reports the
# implicit parameter as POSITIONAL_ONLY "implicit0"; Args says
# positional_or_keyword ".0".
import types, inspect
from code_data import CodeData
top = compile("r = [x for x in y]", "s", "exec")
code = [c for c in top.co_consts if isinstance(c, types.CodeType)][0]
f = types.FunctionType(code, {})
want = [(p.name, p.kind) for p in inspect.signature(f).parameters.values()]
got = list(CodeData.from_code(code).type.args.parameters.items())
print("inspect:", want)
print("library:", got)
assert got == want, "Args differ from inspect.signature"
